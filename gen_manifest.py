#!/usr/bin/env python3
"""Writes MANIFEST.json from the per-property notes below."""
import json, subprocess

NOTES = {
 "C01": ("Lean proof that the engine model (engOp) equals the reference semantics (Sem.eval) on the fragment selectors / range functions / unary / parentheses for all inputs, plus engOp_err; the remaining operators are covered per operator in C04-C06. Engine<->model and Prometheus<->Spec are tied by differential correspondence on generated composite queries.", "partial: composition theorem over a fragment; binary-matching and duplicate-labelset deviations are known findings"),
 "C02": ("Lean proofs: selector operator = reference selection (all storages/lookbacks/offsets); refinement theorem: the engine's selectPoint over an operational model of Prometheus' MemoizedSeriesIterator equals the declarative selection along every non-decreasing sequence of step times; the operator's own batching (every series through all the steps of a batch, iterators threaded through the batches) yields, for every batch partition of the grid, the stream of per-step selections; lookback boundary lemmas, cursor enumerates the grid for every step count, contiguous sharding covers for every shard count, coalesce denotes the union for every merge order.", "the iterator model is tied to the real MemoizedSeriesIterator + selectPoint by a kernel-level correspondence (verif-tag export)"),
 "C03": ("Lean proofs: matrix-selector operator = reference range-function evaluation; refinement theorems for the per-series scan as matrixSelector.Next drives it - selectPoints over an operational model of BufferedSeriesIterator (ring eviction, buffer reset, ReduceDelta to min(range, step) after every step, reused previousPoints slice) returns exactly the window's non-stale samples for every range, step and step count - and for the bare kernel along any strictly increasing window ends; the operator's batched stream (per-series state with ring delta and previousPoints threaded through batches of any sizes) is the stream of per-step range-function evaluations; window characterisation; kernels are shared Lean definitions validated against both engines.", "the iterator model is tied to the real BufferedSeriesIterator + selectPoints (+ ReduceDelta) by a kernel-level correspondence (verif-tag export)"),
 "C04": ("Lean proofs about grouping labels (by/without, name dropped), k parameter handling, one output per group, engine accumulators = reference reductions (sum from an empty group under 0+v=v, avg's running mean under the counting laws), aggregation over the Theorem-B fragment equals the reference up to output order for every accumulator that is the reference reduction on non-empty groups; operational models of the reused accumulators (every state left by earlier batches, every aggregation: each step's output is the per-step reduction) and of the topk/bottomk heap (keeps a sub-multiset of size min(k, n) whose members are not below any dropped sample, for NaN-free groups over a strict weak order).", "accumulators tied by a kernel-level correspondence (verif-tag export); NaN handling and ties of the heap by correspondence"),
 "C05": ("Lean proofs for vector-scalar operators and the reference matching semantics; operational model of the reused timestamp-tagged output table of binary/table.go with a refinement theorem (= a fresh table per step along strictly increasing step timestamps); counterexample theorems exhibiting the engine's join deviation (known finding KF-binary-matching).", "partial: the pinned vector-vector operator violates the property (recorded findings); table model tied by a kernel-level correspondence (verif-tag export)"),
 "C06": ("Lean proofs: pointwise function operators commute with denotation, scalar(), clamp, step-invariant evaluation in reference and engine, time()/literals per step.", "math functions are uninterpreted operations of the value algebra"),
 "C07": ("Lean proofs: leaf cursor protocol enumerates exactly the grid for every step count and batch size, batches bounded, instant = one step, evalGrid is pointwise over the grid (append law).", "range-vs-instant equality of the whole engine is additionally checked on the real engine"),
 "C08": ("Lean proof by functional induction over newOperator's model that plan construction fails only with 'unsupported' (position-closed); dispatch tables pinned to regenerated facts; the model's nativeness decision is compared with the real engine's for every query of an exhaustive vocabulary x position enumeration, which also checks counters, fallback results and that no natively accepted query fails internally.", "statelessness of plan construction w.r.t. storage is checked by the lifecycle oracle"),
 "C09": ("Lean proofs: sorting matchers, select merging (whole-matcher comparison, filters on absent labels) and matcher propagation preserve the selected series for every regex table and label set; the propagation rewrite applies only where its soundness hypothesis is the matching rule (no on, no label list, one-to-one, no comparison). The optimizer model is compared with the real optimizers on an exhaustive matcher alphabet, on merged/pinned/function-wrapped twins and with a debug writer attached.", "planner glue is tied by correspondence"),
 "C10": ("Lean proofs of the union algebra (selection, range functions, pointwise ops, group, count-as-sum) the push-down relies on; max/min push-down is exact for any number of non-empty partitions (the replacement step is associative under the IEEE order laws, NaNs included), sum push-down under associativity of addition; pushed-down table pinned to regenerated facts; distributed-vs-central oracle on the real engine.", "partial: the rewrite (distribute.go) itself is not modelled"),
 "C11": ("Lean proofs: shard count irrelevant, merge order irrelevant (Perm), storage order irrelevant (Perm), unrelated series irrelevant.", "the Go scheduler is represented by the merge-order quantifier"),
 "C12": ("Lean: kernel-checked reachability of the pull/drain/consumer protocol (no write after close, no deadlock) for the regenerated features; regenerated fact that no package-level variable is written. Race detector run of concurrent queries validates.", "partial: memory accesses below the synchronisation skeleton are not modelled"),
 "C13": ("Lean: reachability proof that a panic below a pull goroutine never kills the process given the regenerated recover facts (and does without); the worker group never sends on a closed channel or closes twice under cancellation at any moment (exhaustive reachability); every go site recovers except drain and workers; invalid k handled; planning total. Child-process panic injection and parameter-edge streams validate.", "partial: data-dependent index panics inside worker tasks are covered by the runtime oracle only"),
 "C14": ("Lean: kernel-checked exhaustive reachability (all schedules, cancellation at any moment) of the concurrencyOperator protocol and of the worker-group protocol of the hash aggregation: no deadlock, no leak, consumer return implies cancel; counter-theorems for a removed drain goroutine and an unbuffered worker input. Cancellation injection on the real engine validates.", "partial: bounded time = no stuck state; coalesce fork-join is covered by the runtime oracle only; model-level observations M1, M2"),
 "C15": ("Lean: loader model never succeeds on an incomplete series set; errors propagate through Except and across the pull goroutine (reachability, no external cancel). Fault injection at every storage event kind validates.", "positional faults stand for the k-th callback"),
 "C16": ("Lean: hinted time range contains every sample a selector reads (range selectors, pinned selectors, lookback interval); window locality. Hints are compared with the reference engine's on the real code, and sufficiency by a trimming storage.", "partial: Func/Grouping hint fields are compared by the oracle only"),
 "C17": ("Lean: loader model closes every opened querier exactly once on every path, close is last; regenerated facts (one open site, one deferred close). Counting storage and label snapshots validate.", "partial: aliasing is observed by the harness, not modelled"),
 "C18": ("Lean: plan-wide contract theorem by induction over the typing derivation of all natively supported constructs: every operator of every plan emits per step IDs that index its series list and are pairwise distinct; scalar operators have one series (join tables, probe loop, k-aggregation, hash aggregation, histogram, timestamp selector included); batch bounds and step order of the leaf cursor. The verif-tag wrapper checks the full contract at every Series/Next on the real engine.", "partial: end-of-stream stays ended / no concurrent Next are covered by the wrapper only"),
 "C19": ("Lean: plan-wide theorem that every operator's series labels are well-formed (sorted, no repeated name, no empty value) for plans whose joins carry no include labels; assembled range results carry root-operator label sets, strictly increasing timestamps and no empty series; counterexample for the join's appended include labels. Structural checks of every result on the real engine.", "partial: duplicate label sets and include labels (known findings)"),
 "C20": ("Lean: the model threads no state between queries (history = pointwise runs); regenerated fact that no package variable is written. Sequence oracle with snapshots validates on the real engine.", "partial: buffer reuse is observed by the harness, not modelled"),
}

checks = []
for pid in sorted(NOTES):
    text, note = NOTES[pid]
    checks.append({
        "property_id": pid,
        "quick_cmd": "python3 check.py %s --tier quick" % pid,
        "thorough_cmd": "python3 check.py %s --tier thorough" % pid,
        "evidence_file": "/verif/evidence/%s.json" % pid,
        "replay_cmd_template": "python3 check.py %s --replay {path}" % pid,
        "engine": "lean-proof+correspondence",
        "level_claimed": {"category": "proof", "text": text, "design_ref": "DESIGN.md section 6 (%s) and section 12 (as built)" % pid},
        "level_note": note + "; trusted: Lean kernel (axioms propext, Classical.choice, Quot.sound only), hand-written model tied by differential correspondence and regenerated facts, Go harness and comparison rules",
        "technique": "Lean 4 theorems about a model + model/implementation correspondence + regenerated facts",
    })

hooks = subprocess.run("cd /repo && git log --format=%H --grep='^verif hook' ", shell=True, capture_output=True, text=True).stdout.split()
m = {
    "version": 1,
    "setup_cmd": "./setup.sh",
    "hooks": {
        "guard": "verif",
        "enable": "go build -tags verif (harness module with replace => /repo)",
        "baseline_off_cmd": "cd /repo && go test -mod=mod -json -vet=off -count=1 -timeout 25m ./...",
        "source_commits": hooks,
        "add_only": False,
    },
    "engines": [{"name": "lean-proof+correspondence", "path": "/verif/lean, /verif/harness, /verif/extract",
                 "serves_properties": sorted(NOTES), "kind_free_text": "Lean 4 model + theorems; Go differential harness; go/ast fact extractor"}],
    "checks": checks,
    "not_applicable": [],
    "notes": "All checks: python3 check.py <id>. Known findings in known_findings.jsonl. See DESIGN.md.",
}
json.dump(m, open("/verif/MANIFEST.json", "w"), indent=1)
print("wrote MANIFEST.json with", len(checks), "checks")
