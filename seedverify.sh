#!/bin/bash
# usage: seedverify.sh <Cxx> <mutN>
# Confirms a seeded mutation in a scratch worktree (suite passes with it, demo fails with it and
# passes without it), then runs the property's quick check against it in /repo and reverts.
set -u
P=$1; M=$2
SRC=${SEEDROOT:-/tmp/seed/out}/$P/$M; TAG=${SEEDTAG:-}
WT=/tmp/seedverify_${P}_${M}
export GOFLAGS=-mod=mod GOPROXY=off GOSUMDB=off GOTOOLCHAIN=local
[ -f $SRC/patch.diff ] || { echo "no patch"; exit 2; }
rm -rf $WT; git -C /repo worktree prune; git -C /repo worktree add -q --detach $WT HEAD || exit 2
cd $WT
if ! git apply $SRC/patch.diff 2>/tmp/apply.err; then
  if ! git apply --3way $SRC/patch.diff 2>>/tmp/apply.err; then echo "APPLY-FAILED $(head -c 300 /tmp/apply.err)"; cd /; git -C /repo worktree remove --force $WT; exit 3; fi
fi
git diff > /tmp/seed_rebased.diff
go build ./... 2>&1 | head -5
SUITE=$(go test -vet=off -count=1 -timeout 25m ./... 2>&1 | grep -c "^FAIL\|^--- FAIL\|^panic:")
DEMO=$(ls $SRC/*_test.go 2>/dev/null | head -1)
DEMO_WITH=skip; DEMO_WITHOUT=skip
if [ -n "$DEMO" ]; then
  cp $DEMO engine/zz_seed_demo_test.go
  TAGS=""; grep -q "tags verif" $DEMO && TAGS="-tags verif"
  RACE=""; grep -q "go test -race\|-race " $DEMO && RACE="-race"
  RUN=$(grep -o "func Test[A-Za-z0-9_]*" $DEMO | sed 's/func //' | paste -sd'|')
  go test $TAGS $RACE -vet=off -count=1 -timeout 10m -run "^($RUN)\$" ./engine/ >/tmp/demo_with.log 2>&1; DEMO_WITH=$?
  git apply -R /tmp/seed_rebased.diff
  go test $TAGS $RACE -vet=off -count=1 -timeout 10m -run "^($RUN)\$" ./engine/ >/tmp/demo_without.log 2>&1; DEMO_WITHOUT=$?
fi
cd /; git -C /repo worktree remove --force $WT
echo "suite_failures_with_change=$SUITE demo_exit_with=$DEMO_WITH demo_exit_without=$DEMO_WITHOUT"
# now the check
cd /repo && git apply /tmp/seed_rebased.diff || { echo "cannot apply to /repo"; exit 4; }
cd /verif && timeout 1500 python3 check.py $P > /tmp/seedcheck_${P}_$M.log 2>&1; RC=$?
cd /repo && git checkout -q -- . && git status --short | head -3
NV=$(grep -c '^VIOLATION' /tmp/seedcheck_${P}_$M.log)
echo "check_exit=$RC $NV violation lines"; grep '^VIOLATION' /tmp/seedcheck_${P}_$M.log | head -3
# keep the confirmed seed
if [ "$SUITE" = "0" ] && [ "$DEMO_WITH" != "0" ] && [ "$DEMO_WITHOUT" = "0" ]; then
  D=/verif/seeded/${P}-${TAG}${M}; mkdir -p $D
  cp /tmp/seed_rebased.diff $D/patch.diff
  [ -n "$DEMO" ] && cp $DEMO $D/demo_test.go
  FIRST=$(grep '^VIOLATION' /tmp/seedcheck_${P}_$M.log | head -1)
  NOINPUT=$(grep -c 'no-failing-input-found' /tmp/seedcheck_${P}_$M.log)
  python3 - "$SRC/meta.json" "$D/meta.json" "$P" "$M" "$RC" "$NV" "$NOINPUT" "$(git -C /repo rev-parse --short HEAD)" <<'PY'
import json,sys
src,dst,P,M,rc,nv,noinput,head=sys.argv[1:9]
try: m=json.load(open(src))
except Exception: m={}
m["property"]=P
m["confirmed_by_builder"]={
  "base_commit": head,
  "scratch_worktree": "git worktree add --detach /tmp/seedverify_%s_%s HEAD; git apply patch.diff"%(P,M),
  "suite": "go test -vet=off -count=1 -timeout 25m ./...  -> 0 failures with the change",
  "demo": "copied to engine/zz_seed_demo_test.go; go test -run <its tests> ./engine/ -> fails with the change, passes without it",
  "check": "git -C /repo apply patch.diff; python3 /verif/check.py %s --tier quick; git -C /repo checkout -- ."%P,
  "check_exit": int(rc), "violation_lines": int(nv), "no_failing_input_found_lines": int(noinput),
  "detected": int(rc)==1 and int(nv)>0,
}
json.dump(m,open(dst,"w"),indent=1)
PY
fi
