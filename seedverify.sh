#!/bin/bash
# usage: seedverify.sh <Cxx> <mutN>
# Confirms a seeded mutation in a scratch worktree (suite passes with it, demo fails with it and
# passes without it), then runs the property's quick check against it in /repo and reverts.
set -u
P=$1; M=$2
SRC=/tmp/seed/out/$P/$M
WT=/tmp/seedverify_${P}_${M}
export GOFLAGS=-mod=mod GOPROXY=off GOSUMDB=off GOTOOLCHAIN=local
[ -f $SRC/patch.diff ] || { echo "no patch"; exit 2; }
rm -rf $WT; git -C /repo worktree prune; git -C /repo worktree add -q --detach $WT HEAD || exit 2
cd $WT
if ! git apply $SRC/patch.diff 2>/tmp/apply.err; then
  if ! git apply --3way $SRC/patch.diff 2>>/tmp/apply.err; then echo "APPLY-FAILED $(head -c 300 /tmp/apply.err)"; cd /; git -C /repo worktree remove --force $WT; exit 3; fi
fi
git diff > /tmp/seed_rebased.diff
go build ./... 2>&1 | head -5
SUITE=$(go test -vet=off -count=1 -timeout 25m ./... 2>&1 | grep -c "^FAIL\|^--- FAIL\|^panic:")
DEMO=$(ls $SRC/*_test.go 2>/dev/null | head -1)
DEMO_WITH=skip; DEMO_WITHOUT=skip
if [ -n "$DEMO" ]; then
  cp $DEMO engine/zz_seed_demo_test.go
  TAGS=""; grep -q "tags verif" $DEMO && TAGS="-tags verif"
  RACE=""; grep -q "go test -race\|-race " $DEMO && RACE="-race"
  RUN=$(grep -o "func Test[A-Za-z0-9_]*" $DEMO | sed 's/func //' | paste -sd'|')
  go test $TAGS $RACE -vet=off -count=1 -timeout 10m -run "^($RUN)\$" ./engine/ >/tmp/demo_with.log 2>&1; DEMO_WITH=$?
  git stash -q -- . ':!engine/zz_seed_demo_test.go' 2>/dev/null || git checkout -q -- $(git diff --name-only)
  go test $TAGS $RACE -vet=off -count=1 -timeout 10m -run "^($RUN)\$" ./engine/ >/tmp/demo_without.log 2>&1; DEMO_WITHOUT=$?
fi
cd /; git -C /repo worktree remove --force $WT
echo "suite_failures_with_change=$SUITE demo_exit_with=$DEMO_WITH demo_exit_without=$DEMO_WITHOUT"
# now the check
cd /repo && git apply /tmp/seed_rebased.diff || { echo "cannot apply to /repo"; exit 4; }
cd /verif && timeout 1500 python3 check.py $P > /tmp/seedcheck_${P}_$M.log 2>&1; RC=$?
cd /repo && git checkout -q -- . && git status --short | head -3
echo "check_exit=$RC $(grep -c '^VIOLATION' /tmp/seedcheck_${P}_$M.log) violation lines"; grep '^VIOLATION' /tmp/seedcheck_${P}_$M.log | head -3
