//go:build !verif

package main

func kernelCase(c *Case, lean *LeanDriver) Verdict {
	return Verdict{ID: c.ID, Query: c.Query, Oracle: "kernel", Skipped: "built without the verif tag"}
}

func (g *Gen) kernelCase(i int) *Case { return &Case{ID: "kernel-off"} }
