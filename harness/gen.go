package main

// Structured case generators. Every random choice comes from one PRNG.

import (
	"fmt"
	"math"
	"math/rand"
	"sort"
	"strings"
)

type Gen struct {
	r    *rand.Rand
	prof string
	// knobs
	maxDepth  int
	maxSeries int
	edgeVals  bool // NaN/Inf/huge values
	noAt      bool
	rangeSec  bool // only whole-second ranges

	nanRate float64

	twinRate float64 // share of series mirrored under the other metric name

	// per-case context
	lookback int64
	step     int64
}

func NewGen(seed int64, prof string) *Gen {
	g := &Gen{r: rand.New(rand.NewSource(seed)), prof: prof, maxDepth: 3, maxSeries: 12, edgeVals: true}
	return g
}

func (g *Gen) pick(xs ...string) string    { return xs[g.r.Intn(len(xs))] }
func (g *Gen) chance(p float64) bool       { return g.r.Float64() < p }
func (g *Gen) pickI(xs ...int64) int64     { return xs[g.r.Intn(len(xs))] }
func (g *Gen) pickF(xs ...float64) float64 { return xs[g.r.Intn(len(xs))] }

var metricNames = []string{"m", "n"}
var labelNames = []string{"a", "b", "c"}
var labelValues = []string{"x", "y", "z"}

func durStr(ms int64) string {
	if ms%1000 == 0 {
		return fmt.Sprintf("%ds", ms/1000)
	}
	return fmt.Sprintf("%dms", ms)
}

// ---------------------------------------------------------------------------------------------
// expressions

func (g *Gen) matcher() string {
	name := g.pick(labelNames...)
	switch g.r.Intn(10) {
	case 0, 1, 2, 3:
		return fmt.Sprintf(`%s="%s"`, name, g.pick(labelValues...))
	case 4:
		return fmt.Sprintf(`%s!="%s"`, name, g.pick(labelValues...))
	case 5:
		return fmt.Sprintf(`%s=~"%s"`, name, g.pick("x|y", "y|z", ".*", ".+", "x.*", ""))
	case 6:
		return fmt.Sprintf(`%s!~"%s"`, name, g.pick("x|y", "z", ".+", ".*"))
	case 7:
		return fmt.Sprintf(`%s=""`, name)
	case 8:
		return fmt.Sprintf(`%s!=""`, name)
	default:
		return fmt.Sprintf(`%s="%s"`, name, g.pick(labelValues...))
	}
}

func (g *Gen) selectorCore(metric string) string {
	n := 0
	switch g.r.Intn(6) {
	case 0, 1, 2:
		n = 0
	case 3, 4:
		n = 1
	default:
		n = 2
	}
	var ms []string
	for i := 0; i < n; i++ {
		ms = append(ms, g.matcher())
	}
	if g.chance(0.08) {
		ms = append(ms, fmt.Sprintf(`__name__="%s"`, metric))
		g.r.Shuffle(len(ms), func(i, j int) { ms[i], ms[j] = ms[j], ms[i] })
		return "{" + strings.Join(ms, ",") + "}"
	}
	if g.chance(0.05) {
		// both metrics at once: series that differ in the name only meet in one vector
		ms = append(ms, g.pick(`__name__=~"m|n"`, `__name__=~".+"`, `__name__!="h_bucket"`))
		g.r.Shuffle(len(ms), func(i, j int) { ms[i], ms[j] = ms[j], ms[i] })
		return "{" + strings.Join(ms, ",") + "}"
	}
	if len(ms) == 0 {
		return metric
	}
	return metric + "{" + strings.Join(ms, ",") + "}"
}

func (g *Gen) modifiers(c *Case) string {
	s := ""
	if g.chance(0.25) {
		off := g.pickI(1000, 5000, 15000, 30000, 60000, 1, g.step, g.lookback, 123)
		if g.chance(0.25) {
			off = -off
		}
		s += " offset " + durStrSigned(off)
	}
	if !g.noAt && g.chance(0.15) {
		switch g.r.Intn(5) {
		case 0:
			s += " @ start()"
		case 1:
			s += " @ end()"
		default:
			span := c.End - c.Start
			t := c.Start - 60000 + g.r.Int63n(span+120001)
			if t < 0 {
				t = 0
			}
			s += fmt.Sprintf(" @ %d.%03d", t/1000, t%1000)
		}
	}
	return s
}

func abs64(x int64) int64 {
	if x < 0 {
		return -x
	}
	return x
}

func durStrSigned(ms int64) string {
	if ms < 0 {
		return "-" + durStr(-ms)
	}
	return durStr(ms)
}

func (g *Gen) metric() string {
	if g.chance(0.75) {
		return "m"
	}
	return "n"
}

func (g *Gen) selector(c *Case) string {
	return g.selectorCore(g.metric()) + g.modifiers(c)
}

func (g *Gen) rangeDur() int64 {
	if g.rangeSec {
		return g.pickI(1000, 5000, 30000, 60000, 120000, 300000, g.step*2)/1000*1000 + 1000
	}
	switch g.r.Intn(8) {
	case 0:
		return g.step
	case 1:
		if g.step > 1 {
			return g.step - 1
		}
		return 1
	case 2:
		return g.step + 1
	case 3:
		return g.pickI(1500, 2500, 61001, 999, 100)
	default:
		return g.pickI(1000, 5000, 15000, 30000, 60000, 120000, 300000, g.step*2, g.step*3)
	}
}

var rangeFns = []string{"rate", "increase", "delta", "irate", "idelta", "deriv", "changes", "resets",
	"sum_over_time", "avg_over_time", "min_over_time", "max_over_time", "count_over_time", "last_over_time",
	"present_over_time", "stddev_over_time", "stdvar_over_time"}

func (g *Gen) rangeFn(c *Case) string {
	r := g.rangeDur()
	if r <= 0 {
		r = 1000
	}
	return fmt.Sprintf("%s(%s[%s]%s)", g.pick(rangeFns...), g.selectorCore(g.metric()), durStr(r), g.modifiers(c))
}

var mathFns = []string{"abs", "ceil", "floor", "exp", "sqrt", "ln", "log2", "log10", "sin", "cos", "tan", "asin",
	"acos", "atan", "sinh", "cosh", "tanh", "asinh", "acosh", "atanh", "rad", "deg"}

func (g *Gen) numLit() string {
	switch g.r.Intn(12) {
	case 0:
		return "0"
	case 1:
		return "1"
	case 2:
		return "2"
	case 3:
		return "0.5"
	case 4:
		return "-1"
	case 5:
		return "10"
	case 6:
		if g.edgeVals {
			return g.pick("NaN", "Inf", "-Inf", "1e300", "3")
		}
		return "3"
	case 7:
		return "100"
	case 8:
		return "0.9"
	default:
		return fmt.Sprintf("%d", g.r.Intn(7))
	}
}

func (g *Gen) scalarExpr(c *Case, d int) string {
	if d <= 0 {
		return g.numLit()
	}
	switch g.r.Intn(10) {
	case 0:
		return "time()"
	case 1:
		return "pi()"
	case 2, 3:
		return "scalar(" + g.vectorExpr(c, d-1) + ")"
	case 4:
		op := g.pick("+", "-", "*", "/", "%", "^")
		return "(" + g.scalarExpr(c, d-1) + " " + op + " " + g.scalarExpr(c, d-1) + ")"
	case 5:
		op := g.pick("==", "!=", ">", "<", ">=", "<=")
		return "(" + g.scalarExpr(c, d-1) + " " + op + " bool " + g.scalarExpr(c, d-1) + ")"
	case 6:
		return "-" + g.scalarExpr(c, d-1)
	default:
		return g.numLit()
	}
}

var aggOps = []string{"sum", "min", "max", "avg", "count", "group", "stddev", "stdvar"}

func (g *Gen) grouping() string {
	if g.chance(0.3) {
		return ""
	}
	kw := g.pick("by", "without")
	pool := []string{"a", "b", "c"}
	if g.chance(0.1) {
		pool = append(pool, "__name__")
	}
	if g.chance(0.05) {
		pool = append(pool, "d")
	}
	g.r.Shuffle(len(pool), func(i, j int) { pool[i], pool[j] = pool[j], pool[i] })
	n := g.r.Intn(3)
	return fmt.Sprintf(" %s (%s)", kw, strings.Join(pool[:n], ","))
}

func (g *Gen) aggExpr(c *Case, d int) string {
	inner := g.vectorExpr(c, d-1)
	grp := g.grouping()
	switch g.r.Intn(10) {
	case 0, 1:
		k := g.kParam(c, d-1)
		return fmt.Sprintf("%s%s (%s, %s)", g.pick("topk", "bottomk"), grp, k, inner)
	case 2:
		q := g.pick("0.5", "0.9", "0", "1", "0.25", "-1", "2", "NaN")
		if g.chance(0.2) && d > 1 {
			q = g.scalarExpr(c, d-1)
		}
		return fmt.Sprintf("quantile%s (%s, %s)", grp, q, inner)
	default:
		return fmt.Sprintf("%s%s (%s)", g.pick(aggOps...), grp, inner)
	}
}

func (g *Gen) kParam(c *Case, d int) string {
	switch g.r.Intn(10) {
	case 0, 1, 2:
		return "1"
	case 3, 4:
		return "2"
	case 5:
		return "3"
	case 6:
		return "100"
	case 7:
		return g.pick("0", "-1", "0.5", "1.5", "NaN", "1e30", "-1e30", "Inf")
	default:
		if d > 0 {
			return g.scalarExpr(c, d)
		}
		return "2"
	}
}

func (g *Gen) matching() string {
	switch g.r.Intn(10) {
	case 0, 1, 2, 3:
		return ""
	case 4, 5:
		return " " + g.pick("on", "ignoring") + " (" + g.lblList() + ")"
	case 6, 7:
		return " " + g.pick("on", "ignoring") + " (" + g.lblList() + ") " + g.pick("group_left", "group_right")
	default:
		// (the include list never names __name__: a second name label in the output is a shape of
		// the known finding on include labels that the model does not follow further - the engine
		// drops the first name label only, the model all of them)
		incl := strings.ReplaceAll(strings.ReplaceAll(strings.ReplaceAll(g.lblList(), "__name__,", ""), ",__name__", ""), "__name__", "")
		return " " + g.pick("on", "ignoring") + " (" + g.lblList() + ") " + g.pick("group_left", "group_right") + " (" + incl + ")"
	}
}

func (g *Gen) lblList() string {
	pool := []string{"a", "b", "c"}
	if g.chance(0.08) {
		pool = append(pool, "__name__")
	}
	g.r.Shuffle(len(pool), func(i, j int) { pool[i], pool[j] = pool[j], pool[i] })
	return strings.Join(pool[:g.r.Intn(3)], ",")
}

// twins: the same selector twice with different modifiers (time ranges), so that selects with equal
// matchers but different ranges meet in one query
func (g *Gen) twins(c *Case) (string, string) {
	core := g.selectorCore(g.metric())
	mods := []string{"", " @ start()", " @ end()", " offset " + durStr(g.pickI(5000, 60000, g.step)), fmt.Sprintf(" @ %d.000", c.Start/1000),
		// pinned and shifted at once: the plan-time rewrite of the offset must survive every optimizer
		fmt.Sprintf(" @ %d.000 offset %s", (c.Start+g.pickI(0, 30000, 90000))/1000, durStr(g.pickI(5000, 30000, 60000))),
		fmt.Sprintf(" offset -%s @ %d.000", durStr(g.pickI(5000, 30000)), c.Start/1000)}
	a := mods[g.r.Intn(len(mods))]
	b := mods[g.r.Intn(len(mods))]
	wrap := func(x string) string {
		switch g.r.Intn(4) {
		case 0:
			return "sum(" + x + ")"
		case 1:
			r := durStr(g.pickI(60000, 120000, 300000))
			return "rate(" + core + "[" + r + "]" + strings.TrimPrefix(x, core) + ")"
		}
		return x
	}
	k := g.r.Intn(6)
	if k >= 4 {
		// one twin is narrower (select merging applies), possibly with an offset
		if k == 5 {
			// a filter over the whole metric, read at the same time as its base
			core = g.metric()
			b = a
		}
		extra := g.matcher()
		narrow := core
		if strings.HasSuffix(core, "}") {
			narrow = core[:len(core)-1] + "," + extra + "}"
		} else {
			narrow = core + "{" + extra + "}"
		}
		if g.chance(0.2) {
			// merging and propagation on one selector: a narrower twin of a selector that is
			// itself joined one-to-one with another metric; two label matchers leave spare
			// capacity in the parser's matcher slice, which is where a shared array shows
			met, other := "m", "n"
			if g.chance(0.5) {
				met, other = "n", "m"
			}
			m1, m2, m3 := g.matcher(), g.matcher(), g.matcher()
			wide := met + "{" + m1 + "," + m2 + "}"
			narrower := met + "{" + m1 + "," + m2 + "," + m3 + "}"
			oth := other + "{" + g.matcher() + "}"
			if g.chance(0.5) {
				return "sum(" + wide + " + " + oth + ")", "sum(" + narrower + ")"
			}
			return "sum(" + narrower + ")", "sum(" + oth + " * " + wide + ")"
		}
		if g.chance(0.12) {
			// a merged selector as the direct argument of a function
			fn := g.pick("abs", "ceil", "floor", "sqrt", "exp")
			if g.chance(0.5) {
				return "sum(" + fn + "(" + narrow + a + "))", "sum(" + core + b + ")"
			}
			return fn + "(" + narrow + a + ")", core + b
		}
		if g.chance(0.15) {
			// timestamp() over a merged selector has its own operator
			if g.chance(0.5) {
				if g.chance(0.3) {
					return "timestamp(" + narrow + a + ")", "timestamp(" + core + b + ")"
				}
				return "timestamp(" + narrow + a + ")", core + b
			}
			return "timestamp(" + narrow + ")", core
		}
		if g.chance(0.5) {
			// the select merger only looks below a step-invariant wrapper when it wraps a bare
			// selector: pin one twin, leave the other moving with the steps
			pin := g.pick(" @ start()", " @ end()", fmt.Sprintf(" @ %d.000", c.Start/1000), fmt.Sprintf(" @ %d.000", (c.Start+c.End)/2000))
			free := g.pick("", "", " offset "+durStr(g.pickI(5000, 60000, g.step)))
			if g.chance(0.3) {
				pin += " offset " + durStr(g.pickI(5000, 30000))
				pin = strings.Replace(pin, " offset", " offset", 1)
			}
			if g.chance(0.5) {
				return narrow + pin, core + free
			}
			return narrow + free, core + pin
		}
		if g.chance(0.5) {
			return "sum(" + narrow + a + ")", "sum(" + core + b + ")"
		}
		return narrow + a, core + b
	}
	if k == 1 {
		r := durStr(g.pickI(60000, 120000, 300000))
		r2 := durStr(g.pickI(60000, 120000, 300000, 600000))
		return "rate(" + core + "[" + r + "]" + a + ")", "rate(" + core + "[" + r2 + "]" + b + ")"
	}
	_ = wrap
	if k == 0 {
		return "sum(" + core + a + ")", "sum(" + core + b + ")"
	}
	return core + a, core + b
}

func (g *Gen) binExpr(c *Case, d int) string {
	arith := []string{"+", "-", "*", "/", "%", "^", "atan2"}
	cmp := []string{"==", "!=", ">", "<", ">=", "<="}
	var op string
	isCmp := g.chance(0.4)
	if isCmp {
		op = g.pick(cmp...)
		if g.chance(0.4) {
			op += " bool"
		}
	} else {
		op = g.pick(arith...)
	}
	if op == "^" {
		// keep powers in a range where Go's math.Pow and the C library agree (no denormals)
		return "(" + g.vectorExpr(c, d-1) + " ^ " + g.pick("2", "0.5", "-1", "3", "0", "1") + ")"
	}
	if g.chance(0.12) {
		x, y := g.twins(c)
		return "(" + x + " " + op + " " + y + ")"
	}
	switch g.r.Intn(4) {
	case 0:
		return "(" + g.vectorExpr(c, d-1) + " " + op + " " + g.scalarExpr(c, d-1) + ")"
	case 1:
		return "(" + g.scalarExpr(c, d-1) + " " + op + " " + g.vectorExpr(c, d-1) + ")"
	default:
		return "(" + g.vectorExpr(c, d-1) + " " + op + g.matching() + " " + g.vectorExpr(c, d-1) + ")"
	}
}

func (g *Gen) funcExpr(c *Case, d int) string {
	switch g.r.Intn(12) {
	case 0:
		return fmt.Sprintf("clamp(%s, %s, %s)", g.vectorExpr(c, d-1), g.scalarExpr(c, d-1), g.scalarExpr(c, d-1))
	case 1:
		return fmt.Sprintf("clamp_min(%s, %s)", g.vectorExpr(c, d-1), g.scalarExpr(c, d-1))
	case 2:
		return fmt.Sprintf("clamp_max(%s, %s)", g.vectorExpr(c, d-1), g.scalarExpr(c, d-1))
	case 3:
		return fmt.Sprintf("timestamp(%s)", g.vectorExpr(c, d-1))
	case 4:
		return fmt.Sprintf("vector(%s)", g.scalarExpr(c, d-1))
	case 5:
		return fmt.Sprintf("histogram_quantile(%s, %s)", g.pick("0.5", "0.9", "0.99", "0", "1", "-1", "2", g.scalarExpr(c, d-1)), g.histArg(c, d-1))
	default:
		fn := g.pick(mathFns...)
		switch fn {
		case "sin", "cos", "tan", "exp", "sinh", "cosh":
			// keep the arguments of these in a range where the Go and C math libraries agree
			return fmt.Sprintf("%s(%s)", fn, g.selector(c))
		}
		return fmt.Sprintf("%s(%s)", fn, g.vectorExpr(c, d-1))
	}
}

func (g *Gen) histArg(c *Case, d int) string {
	switch g.r.Intn(5) {
	case 4:
		return `{__name__=~"._bucket"}`
	case 0:
		return "h_bucket"
	case 1:
		return "sum by (le) (h_bucket)"
	case 2:
		return "rate(h_bucket[" + durStr(g.pickI(60000, 120000, 300000)) + "])"
	default:
		return "h_bucket" + g.modifiers(c)
	}
}

func (g *Gen) vectorExpr(c *Case, d int) string {
	if d <= 0 {
		if g.chance(0.3) {
			return g.rangeFn(c)
		}
		return g.selector(c)
	}
	switch g.r.Intn(12) {
	case 0, 1:
		return g.selector(c)
	case 2, 3:
		return g.rangeFn(c)
	case 4, 5, 6:
		return g.aggExpr(c, d)
	case 7, 8:
		return g.binExpr(c, d)
	case 9, 10:
		return g.funcExpr(c, d)
	default:
		if g.chance(0.3) {
			// stacked unary operators and parentheses: every level is an operator of its own
			// (each minus drops the metric name once more, none may be "simplified" away)
			x := g.vectorExpr(c, d-1)
			return fmt.Sprintf(g.pick("-(-%s)", "- -%s", "-(+(-%s))", "+(-(%s))", "-((-(%s)))", "-(-(-%s))", "+(+%s)"), x)
		}
		if g.chance(0.5) {
			return "-" + g.vectorExpr(c, d-1)
		}
		return "(" + g.vectorExpr(c, d-1) + ")"
	}
}

// ---------------------------------------------------------------------------------------------
// data

func (g *Gen) value(counter bool, prev float64) float64 {
	if g.nanRate > 0 && g.chance(g.nanRate) {
		return math.NaN()
	}
	if counter {
		if g.chance(0.06) {
			return float64(g.r.Intn(5)) // reset
		}
		return prev + float64(g.r.Intn(20))
	}
	if g.edgeVals && g.chance(0.04) {
		switch g.r.Intn(6) {
		case 0:
			return math.NaN()
		case 1:
			return math.Inf(1)
		case 2:
			return math.Inf(-1)
		case 3:
			return 0
		case 4:
			return -float64(g.r.Intn(100))
		default:
			return 1e6
		}
	}
	switch g.r.Intn(4) {
	case 0:
		return float64(g.r.Intn(10))
	case 1:
		return float64(g.r.Intn(2000)-1000) / 8
	case 2:
		return prev
	default:
		return float64(g.r.Intn(100))
	}
}

// timestamps generates strictly increasing sample times around the window.
func (g *Gen) timestamps(c *Case, ranges []int64) []int64 {
	lo := c.Start - 2*g.lookback - 400000
	hi := c.End + 60000
	if hi-lo > 40000000 {
		lo = c.Start - 1200000
	}
	set := map[int64]bool{}
	switch g.r.Intn(5) {
	case 0: // nothing in the window, maybe before/after
		if g.chance(0.5) {
			set[lo-1000] = true
		}
		if g.chance(0.5) {
			set[hi+1000] = true
		}
	default:
		iv := g.pickI(1000, 5000, 15000, 30000, 60000, 7001)
		t := lo + g.r.Int63n(iv)
		if g.chance(0.2) { // starts late
			t = c.Start + g.r.Int63n(c.End-c.Start+1)
		}
		end := hi
		if g.chance(0.2) { // ends early
			end = c.Start + g.r.Int63n(c.End-c.Start+1)
		}
		for ; t <= end; t += iv {
			if g.chance(0.1) { // gap
				t += iv * int64(1+g.r.Intn(30))
			}
			j := int64(0)
			if g.chance(0.3) {
				j = g.r.Int63n(iv/2+1) - iv/4
			}
			set[t+j] = true
		}
	}
	// boundary samples relative to grid points
	grid := c.Grid()
	nb := g.r.Intn(4)
	for i := 0; i < nb; i++ {
		gt := grid[g.r.Intn(len(grid))]
		ds := []int64{0, 1, -1, g.lookback, g.lookback - 1, g.lookback + 1}
		for _, r := range ranges {
			ds = append(ds, r, r-1, r+1)
		}
		set[gt-ds[g.r.Intn(len(ds))]] = true
	}
	var ts []int64
	for t := range set {
		ts = append(ts, t)
	}
	sort.Slice(ts, func(i, j int) bool { return ts[i] < ts[j] })
	return ts
}

func (g *Gen) dataset(c *Case, ranges []int64, withHist bool) {
	n := g.r.Intn(g.maxSeries + 1)
	seen := map[string]bool{}
	for i := 0; i < n; i++ {
		name := g.metric()
		var ls [][2]string
		ls = append(ls, [2]string{"__name__", name})
		for _, ln := range labelNames {
			if g.chance(0.65) {
				ls = append(ls, [2]string{ln, g.pick(labelValues...)})
			}
		}
		if g.chance(0.12) {
			// a label name that sorts before __name__
			ls = append(ls, [2]string{"Z", g.pick(labelValues...)})
		}
		sort.Slice(ls, func(i, j int) bool { return ls[i][0] < ls[j][0] })
		key := fmt.Sprint(ls)
		if seen[key] {
			continue
		}
		seen[key] = true
		c.Series = append(c.Series, g.seriesFor(c, ls, ranges, g.chance(0.4)))
		if g.chance(0.2+g.twinRate) && len(c.Series) < g.maxSeries {
			// the same label set under the other metric name
			other := "n"
			if name == "n" {
				other = "m"
			}
			tw := make([][2]string, len(ls))
			copy(tw, ls)
			for k := range tw {
				if tw[k][0] == "__name__" {
					tw[k][1] = other
				}
			}
			if key2 := fmt.Sprint(tw); !seen[key2] {
				seen[key2] = true
				c.Series = append(c.Series, g.seriesFor(c, tw, ranges, g.chance(0.4)))
			}
		}
	}
	if withHist {
		groups := 1 + g.r.Intn(2)
		twoHist := g.chance(0.3)
		sameA := g.chance(0.5)
		lateLabel := g.chance(0.5)
		if strings.Contains(c.Query, "._bucket") {
			// a selector over both bucket metrics: make them collide after the name is dropped
			twoHist = g.chance(0.85)
			sameA = g.chance(0.8)
		}
		if twoHist {
			groups = 2
		}
		for gi := 0; gi < groups; gi++ {
			bounds := []string{"0.1", "0.5", "1", "5", "+Inf"}
			if g.chance(0.2) {
				bounds = []string{"1", "+Inf"}
			}
			if g.chance(0.1) {
				bounds = []string{"0.5", "1", "2"} // no +Inf
			}
			if g.chance(0.1) {
				bounds = append(bounds, "bad")
			}
			ts := g.timestamps(c, ranges)
			cum := make([]float64, len(ts))
			for _, b := range bounds {
				hname := "h_bucket"
				if gi == 1 && twoHist {
					hname = "g_bucket"
				}
				av := labelValues[gi%2]
				if twoHist && sameA {
					av = labelValues[0]
				}
				ls := [][2]string{{"__name__", hname}, {"a", av}, {"le", b}}
				if lateLabel {
					// a label that sorts after "le": dropping "le" in place would shift it
					ls = append(ls, [2]string{"p", labelValues[gi%len(labelValues)]})
				}
				s := SeriesJ{Labels: ls}
				for k, t := range ts {
					cum[k] += float64(g.r.Intn(5)) * float64(k+1)
					if g.chance(0.03) {
						continue
					}
					s.Samples = append(s.Samples, SampleJ{T: t, V: F(cum[k])})
				}
				c.Series = append(c.Series, s)
			}
		}
	}
	if g.chance(0.5) {
		g.r.Shuffle(len(c.Series), func(i, j int) { c.Series[i], c.Series[j] = c.Series[j], c.Series[i] })
	}
}

func (g *Gen) seriesFor(c *Case, ls [][2]string, ranges []int64, counter bool) SeriesJ {
	s := SeriesJ{Labels: ls}
	prev := float64(g.r.Intn(50))
	for _, t := range g.timestamps(c, ranges) {
		if g.chance(0.05) {
			s.Samples = append(s.Samples, SampleJ{T: t, Stale: true})
			continue
		}
		v := g.value(counter, prev)
		if !math.IsNaN(v) && !math.IsInf(v, 0) {
			prev = v
		}
		s.Samples = append(s.Samples, SampleJ{T: t, V: F(v)})
	}
	return s
}

// ---------------------------------------------------------------------------------------------
// windows and whole cases

func (g *Gen) window(c *Case) {
	base := g.pickI(0, 1000000, 1000000, 1700000000000, 123456)
	if g.chance(0.2) {
		base += g.r.Int63n(60000)
	}
	c.Start = base
	if g.chance(0.3) {
		c.Step = 0
		c.End = base
		g.step = 30000
	} else {
		c.Step = g.pickI(1000, 5000, 7000, 15000, 30000, 60000, 300000, 1, 999)
		var n int64
		switch g.r.Intn(10) {
		case 0:
			n = 1
		case 1:
			n = g.pickI(10, 11, 20, 21, 9, 19)
		case 2:
			n = g.pickI(101, 250, 50)
		default:
			n = 1 + g.r.Int63n(35)
		}
		c.End = c.Start + (n-1)*c.Step
		if g.chance(0.3) {
			c.End += g.r.Int63n(c.Step)
		}
		g.step = c.Step
	}
	if g.chance(0.12) {
		// sub-millisecond parts: the engines truncate to milliseconds, the grid must not change
		c.StartNs = g.r.Int63n(1000000)
		if !c.Instant() {
			c.EndNs = g.r.Int63n(1000000)
		}
	}
	c.Lookback = g.pickI(300000, 300000, 300000, 60000, 5000, 1000, 1, 600000, g.step, g.step+1, g.step-1)
	if c.Lookback <= 0 {
		c.Lookback = 300000
	}
	g.lookback = c.Lookback
	if g.chance(0.1) {
		c.QLookback = g.pickI(60000, 1000, 600000, 30000)
		g.lookback = c.QLookback
	}
}

// Case generates one case for the generator's profile.
func (g *Gen) Case(i int) *Case {
	c := &Case{ID: fmt.Sprintf("%s-%d", g.prof, i), Profile: g.prof, Opt: "none"}
	g.window(c)
	depth := g.r.Intn(g.maxDepth + 1)
	switch g.prof {
	case "selector":
		c.Query = g.selector(c)
		switch g.r.Intn(6) {
		case 0:
			c.Query = "(" + c.Query + ")"
		case 1:
			c.Query = "+" + c.Query
		case 2:
			c.Query = c.Query + " + 0"
		case 3:
			c.Query = "sum without () (" + c.Query + ")"
		}
		g.maxSeries = 40
	case "rangefn":
		c.Query = g.rangeFn(c)
	case "agg":
		c.Query = g.aggExpr(c, 1+g.r.Intn(2))
		if g.chance(0.06) {
			// series that differ in the metric name only, grouped without any label: the name is
			// not part of the group key
			sel := g.pick(`{__name__=~"m|n"}`, `{__name__=~".+"}`, `{__name__=~"m|n",a!=""}`, `{__name__!="x"}`)
			op := g.pick("sum", "count", "max", "avg", "group", "min")
			c.Query = fmt.Sprintf("%s without (%s) (%s)", op, g.pick("", "", "a", "b"), sel)
			if g.chance(0.2) {
				c.Query = fmt.Sprintf("topk without () (%d, %s)", g.pickI(1, 2, 5), sel)
			}
			g.twinRate = 0.6
		}
	case "hist":
		// histogram_quantile in all its input shapes (bare buckets, regex over two bucket
		// metrics, aggregated and rated buckets), with constant and moving quantiles
		q := g.pick("0.5", "0.9", "0.99", "0", "1", "-1", "2", "NaN", "scalar(n)", "time() / 1e10", "0.25")
		c.Query = fmt.Sprintf("histogram_quantile(%s, %s)", q, g.histArg(c, 1))
		if g.chance(0.35) {
			c.Query = g.pick("sum(", "abs(", "max by (a) (", "sum by (a, p) (", "count without (a) (", "sum by () (") + c.Query + ")"
		} else if g.chance(0.1) {
			c.Query = g.pick("sum by (a) (", "max without (b) (", "count by (c, a) (") + "timestamp(" + g.selectorCore(g.metric()) + "))"
		}
	case "aggparam":
		// aggregation parameters at and beyond the edges of their domain
		inner := g.selectorCore("m")
		if g.chance(0.3) {
			inner = g.pick("abs", "ceil", "-") + "(" + inner + ")"
		}
		grp := g.pick("", "", "by (a) ", "without (b) ", "by () ")
		par := g.pick("NaN", "Inf", "-Inf", "-1", "0", "0.5", "1", "2", "1e300", "-1e300", "scalar(absent_metric)",
			"scalar(n)", "time()", "scalar(n) / 0", "1.5", "0.999", "9.3e18", "-9.3e18")
		c.Query = fmt.Sprintf("%s %s(%s, %s)", g.pick("quantile", "quantile", "topk", "bottomk"), grp, par, inner)
	case "kagg":
		// k-selection over large groups with NaN values: the answer must not depend on the
		// order in which the samples of a step arrive
		grp := g.pick("", "", "by (a) ", "without (b, c) ", "by () ")
		inner := g.selectorCore("m")
		if g.chance(0.3) {
			inner = g.pick("abs", "ceil", "-", "+") + "(" + inner + ")"
		}
		c.Query = fmt.Sprintf("%s %s(%d, %s)", g.pick("topk", "bottomk"), grp, g.pickI(2, 2, 3, 4), inner)
		g.maxSeries = 24
	case "binary":
		c.Query = g.binExpr(c, 1+g.r.Intn(2))
		if g.chance(0.08) {
			op := g.pick("+", "-", "*", "== bool", "> bool", "/")
			c.Query = fmt.Sprintf("%s %s on (__name__, %s) (%s offset %s)", g.selectorCore("m"), op, g.pick("a", "b", "a, b"), g.selectorCore("m"), durStr(g.pickI(0, 30000, 60000)))
		}
	case "twins":
		x, y := g.twins(c)
		g.maxSeries = 40 // several series per shard
		op := g.pick("+", "-", "/", "*", "> bool", "==")
		if g.chance(0.5) {
			op += " on (a, b, c)"
		}
		c.Query = x + " " + op + " " + y
		if c.Instant() && g.chance(0.8) {
			c.Step = g.pickI(15000, 30000, 60000)
			c.End = c.Start + c.Step*int64(3+g.r.Intn(30))
			g.step = c.Step
		}
	case "subms":
		// short windows whose bounds carry sub-millisecond parts, start's larger than end's
		c.Step = g.pickI(1000, 5000, 15000)
		n := int64(2 + g.r.Intn(9))
		c.End = c.Start + (n-1)*c.Step
		c.StartNs = 500000 + g.r.Int63n(499999)
		c.EndNs = g.r.Int63n(400000)
		g.step = c.Step
		sel := g.selectorCore(g.metric())
		switch g.r.Intn(5) {
		case 0:
			c.Query = sel + " + time()"
		case 1:
			c.Query = fmt.Sprintf("%s - %s @ %d.000", sel, sel, (c.Start+c.Step)/1000)
		case 2:
			c.Query = fmt.Sprintf("%s > bool scalar(%s @ %d.000)", sel, sel, (c.Start+2*c.Step)/1000)
		case 3:
			c.Query = "clamp_min(" + sel + ", time())"
		default:
			c.Query = sel + " * pi() + time()"
		}
	case "func":
		if g.chance(0.08) {
			// an @-pinned vector under a function whose scalar argument moves with the steps
			sel := g.selectorCore(g.metric()) + g.pick(" @ start()", " @ end()", fmt.Sprintf(" @ %d.000", c.Start/1000))
			tm := g.pick("time()", "time() / 2", "time() - 1000", "scalar(n)")
			switch g.r.Intn(4) {
			case 0:
				c.Query = "clamp_max(" + sel + ", " + tm + ")"
			case 1:
				c.Query = "clamp_min(" + sel + ", " + tm + ")"
			case 2:
				c.Query = "clamp(" + sel + ", 0, " + tm + ")"
			default:
				c.Query = sel + " " + g.pick("+", "-", "*", "> bool", "<") + " " + tm
			}
			if c.Instant() {
				c.Step = g.pickI(15000, 30000, 60000)
				c.End = c.Start + c.Step*int64(2+g.r.Intn(25))
				g.step = c.Step
			}
		} else if g.chance(0.3) {
			c.Query = g.scalarExpr(c, 1+g.r.Intn(2))
		} else {
			c.Query = g.funcExpr(c, 1+g.r.Intn(2))
		}
	default:
		if g.chance(0.1) {
			c.Query = g.scalarExpr(c, depth)
		} else {
			c.Query = g.vectorExpr(c, depth)
		}
	}
	ranges := extractRanges(c.Query)
	g.nanRate = 0
	if (strings.Contains(c.Query, "topk") || strings.Contains(c.Query, "bottomk")) && g.chance(0.4) {
		g.nanRate = 0.2
	}
	if g.prof == "kagg" {
		g.nanRate = g.pickF(0.1, 0.25, 0.4)
	}
	g.dataset(c, ranges, strings.Contains(c.Query, "_bucket"))
	g.nanRate = 0
	g.twinRate = 0
	c.Procs = int(g.pickI(2, 4, 8, 16, 1, 6))
	// the optimizers must not change anything: run a share of the cases with them
	c.Opt = g.pick("none", "none", "default", "default", "all")
	return c
}

// extractRanges finds [<dur>] occurrences (for boundary-aligned data).
func extractRanges(q string) []int64 {
	var out []int64
	for i := 0; i < len(q); i++ {
		if q[i] != '[' {
			continue
		}
		j := strings.IndexByte(q[i:], ']')
		if j < 0 {
			break
		}
		d := q[i+1 : i+j]
		var n int64
		if strings.HasSuffix(d, "ms") {
			fmt.Sscanf(d, "%dms", &n)
		} else if strings.HasSuffix(d, "s") {
			fmt.Sscanf(d, "%ds", &n)
			n *= 1000
		}
		if n > 0 {
			out = append(out, n)
		}
	}
	return out
}
