package main

// Kernel-level correspondence for the batch-level (pull) model of Streams.lean: trees of the
// engine's real operators - unary minus, sum by (), + on(), clamp_min(v, s), v + s with a scalar operand, coalesce, the
// step-invariant operator, the number literal - over scripted children that return prescribed
// batches (aligned the way the leaves of a plan are, or not: a child that ends early, a shorter
// batch, an empty batch, a nil in the middle), against the model's `next` on the same tree and
// scripts: every batch of every call (timestamps, sample IDs, values) and how many batches each
// scripted child was asked for. The model's theorems (C18) are about that `next`.

import (
	"context"
	"fmt"
	"strings"
	"time"

	"github.com/prometheus/prometheus/model/labels"
	"github.com/prometheus/prometheus/promql/parser"

	"github.com/thanos-community/promql-engine/execution/aggregate"
	"github.com/thanos-community/promql-engine/execution/binary"
	"github.com/thanos-community/promql-engine/execution/exchange"
	"github.com/thanos-community/promql-engine/execution/function"
	"github.com/thanos-community/promql-engine/execution/model"
	"github.com/thanos-community/promql-engine/execution/scan"
	"github.com/thanos-community/promql-engine/execution/step_invariant"
	"github.com/thanos-community/promql-engine/execution/unary"
	"github.com/thanos-community/promql-engine/query"
)

// PullCase: a tree over scripted children. Tree grammar: S<k> | L | N(x) | A(x) | Z(x,y) |
// F(x,y) | B(x,y) | C(x,y) | I(x); the window (Case.Start/End/Step) is what L and I work on.
type PullCase struct {
	Tree    string      `json:"tree"`
	Scripts [][]CoBatch `json:"scripts"`
	Sizes   []int       `json:"sizes"` // number of series of every scripted child
	B       int         `json:"b"`
	Lit     F           `json:"lit"`
	Calls   int         `json:"calls"`
}

type scriptChild struct {
	series  []labels.Labels
	batches []CoBatch
	next    int
	pool    *model.VectorPool
}

func (f *scriptChild) Series(context.Context) ([]labels.Labels, error) { return f.series, nil }
func (f *scriptChild) GetPool() *model.VectorPool                      { return f.pool }
func (f *scriptChild) Explain() (string, []model.VectorOperator)       { return "[script]", nil }
func (f *scriptChild) Next(context.Context) ([]model.StepVector, error) {
	if f.next >= len(f.batches) {
		return nil, nil
	}
	b := f.batches[f.next]
	f.next++
	if b.Nil {
		return nil, nil
	}
	out := f.pool.GetVectorBatch()
	for _, st := range b.Steps {
		sv := f.pool.GetStepVector(st.T)
		for i, id := range st.IDs {
			sv.SampleIDs = append(sv.SampleIDs, uint64(id))
			sv.Samples = append(sv.Samples, float64(st.Vals[i]))
		}
		out = append(out, sv)
	}
	return out, nil
}

type pullBuilder struct {
	pc      *PullCase
	opts    *query.Options
	leaves  []*scriptChild
	src     string
	pos     int
	modelTr strings.Builder
}

func (b *pullBuilder) peek() byte {
	if b.pos < len(b.src) {
		return b.src[b.pos]
	}
	return 0
}

func (b *pullBuilder) expect(c byte) error {
	if b.peek() != c {
		return fmt.Errorf("tree: expected %c at %d in %s", c, b.pos, b.src)
	}
	b.pos++
	return nil
}

// build returns the real operator and the number of series it has.
func (b *pullBuilder) build() (model.VectorOperator, int, error) {
	B := b.pc.B
	c := b.peek()
	b.pos++
	switch c {
	case 'S':
		k := 0
		for b.peek() >= '0' && b.peek() <= '9' {
			k = k*10 + int(b.peek()-'0')
			b.pos++
		}
		if k >= len(b.pc.Scripts) {
			return nil, 0, fmt.Errorf("tree: no script %d", k)
		}
		sc := &scriptChild{batches: b.pc.Scripts[k], pool: model.NewVectorPool(B)}
		for i := 0; i < b.pc.Sizes[k]; i++ {
			sc.series = append(sc.series, labels.FromStrings("__name__", "s", "k", fmt.Sprint(k), "i", fmt.Sprint(i)))
		}
		sc.pool.SetStepSize(b.pc.Sizes[k])
		b.leaves = append(b.leaves, sc)
		fmt.Fprintf(&b.modelTr, "S%d", k)
		return sc, b.pc.Sizes[k], nil
	case 'L':
		fmt.Fprintf(&b.modelTr, "L%d:%d:%s", b.opts.End.UnixMilli(), b.opts.Start.UnixMilli(), kbitsAny(float64(b.pc.Lit)))
		return scan.NewNumberLiteralSelector(model.NewVectorPool(B), b.opts, float64(b.pc.Lit)), 1, nil
	case 'N', 'A', 'I':
		if c == 'I' {
			fmt.Fprintf(&b.modelTr, "I%d:%d(", b.opts.End.UnixMilli(), b.opts.Start.UnixMilli())
		} else {
			fmt.Fprintf(&b.modelTr, "%c(", c)
		}
		if err := b.expect('('); err != nil {
			return nil, 0, err
		}
		x, n, err := b.build()
		if err != nil {
			return nil, 0, err
		}
		if err := b.expect(')'); err != nil {
			return nil, 0, err
		}
		b.modelTr.WriteString(")")
		switch c {
		case 'N':
			op, err := unary.NewUnaryNegation(x, B)
			return op, n, err
		case 'A':
			op, err := aggregate.NewHashAggregate(model.NewVectorPool(B), x, nil, parser.SUM, true, nil, B)
			return op, 1, err
		default:
			op, err := step_invariant.NewStepInvariantOperator(model.NewVectorPool(B), x, &parser.NumberLiteral{Val: 1}, b.opts, B)
			return op, n, err
		}
	case 'Z', 'F', 'C', 'B':
		mark := b.modelTr.Len()
		b.modelTr.WriteString("?(")
		if err := b.expect('('); err != nil {
			return nil, 0, err
		}
		x, nx, err := b.build()
		if err != nil {
			return nil, 0, err
		}
		if err := b.expect(','); err != nil {
			return nil, 0, err
		}
		b.modelTr.WriteString(",")
		y, ny, err := b.build()
		if err != nil {
			return nil, 0, err
		}
		if err := b.expect(')'); err != nil {
			return nil, 0, err
		}
		b.modelTr.WriteString(")")
		head := string(c)
		if c == 'C' {
			head = fmt.Sprintf("C%d", nx)
		}
		s := b.modelTr.String()
		b.modelTr.Reset()
		b.modelTr.WriteString(s[:mark] + head + s[mark+1:])
		switch c {
		case 'Z':
			op, err := binary.NewVectorOperator(model.NewVectorPool(B), x, y,
				&parser.VectorMatching{Card: parser.CardOneToOne, On: true}, parser.ADD, false)
			return op, 1, err
		case 'F':
			e, perr := parser.ParseExpr("clamp_min(m, scalar(n))")
			if perr != nil {
				return nil, 0, perr
			}
			call := e.(*parser.Call)
			fc, ferr := function.NewFunctionCall(call.Func)
			if ferr != nil {
				return nil, 0, ferr
			}
			op, err := function.NewFunctionOperator(call, fc, []model.VectorOperator{x, y}, B, b.opts)
			return op, nx, err
		case 'B':
			op, err := binary.NewScalar(model.NewVectorPool(B), x, y, parser.ADD, binary.ScalarSideRight, false)
			return op, nx, err
		default:
			return exchange.NewCoalesce(model.NewVectorPool(B), x, y), nx + ny, nil
		}
	}
	return nil, 0, fmt.Errorf("tree: unexpected %c at %d in %s", c, b.pos-1, b.src)
}

func pullKernel(c *Case, lean *LeanDriver) (v Verdict) {
	v = Verdict{ID: c.ID, Query: c.Query, Oracle: "kernel", Native: true}
	pc := c.KPull
	if pc == nil {
		v.Skipped = "no pull case"
		return v
	}
	defer func() {
		if r := recover(); r != nil {
			v.Crash = fmt.Sprintf("panic in the operator tree %s: %v", pc.Tree, r)
		}
	}()
	opts := &query.Options{Start: time.UnixMilli(c.Start), End: time.UnixMilli(c.End),
		Step: time.Duration(c.Step) * time.Millisecond, StepsBatch: int64(pc.B)}
	// Options.NumSteps() - the selectors' steps per batch - against the model's numStepsBatch, on
	// the window as the engine gets it: with sub-millisecond parts the cursors never see
	{
		o2 := *opts
		o2.Start = o2.Start.Add(time.Duration(c.StartNs))
		o2.End = o2.End.Add(time.Duration(c.EndNs))
		ans, aerr := lean.Ask([]string{"case " + c.ID, fmt.Sprintf("kernel numsteps %d %d %d %d", c.Start, c.End, c.Step, pc.B), "end"})
		if aerr != nil {
			v.Crash = "lean: " + aerr.Error()
			return v
		}
		if got := fmt.Sprint(o2.NumSteps()); got != strings.TrimSpace(ans["kernel"]) {
			v.EngVsModel = fmt.Sprintf("Options.NumSteps() = %s, model numStepsBatch = %s (start %d ms + %d ns, end %d ms + %d ns, step %d, batch %d)",
				got, ans["kernel"], c.Start, c.StartNs, c.End, c.EndNs, c.Step, pc.B)
			return v
		}
	}
	pb := &pullBuilder{pc: pc, opts: opts, src: pc.Tree}
	op, total, err := pb.build()
	if err != nil || pb.pos != len(pb.src) {
		v.Other = fmt.Sprintf("cannot build %s: %v", pc.Tree, err)
		return v
	}
	ctx, cancel := context.WithTimeout(context.Background(), 20*time.Second)
	defer cancel()
	series, err := op.Series(ctx)
	if err != nil {
		v.Other = "Series: " + err.Error()
		return v
	}
	if len(series) != total {
		v.Other = fmt.Sprintf("Series: %d series, expected %d", len(series), total)
		return v
	}
	var real []string
	for i := 0; i < pc.Calls; i++ {
		out, err := op.Next(ctx)
		switch {
		case err != nil:
			real = append(real, "err:"+err.Error())
		case out == nil:
			real = append(real, "nil")
		case len(out) == 0:
			real = append(real, "e")
		default:
			var steps []string
			for _, sv := range out {
				steps = append(steps, coStepString(sv.T, sv.SampleIDs, sv.Samples))
				if len(sv.Samples) > 0 {
					v.NonTriv = true
				}
			}
			real = append(real, strings.Join(steps, ";"))
		}
	}
	var left []string
	for _, l := range pb.leaves {
		left = append(left, fmt.Sprint(len(l.batches)-l.next))
	}
	var scs []string
	for _, sc := range pc.Scripts {
		var calls []string
		for _, b := range sc {
			switch {
			case b.Nil:
				calls = append(calls, "-")
			case len(b.Steps) == 0:
				calls = append(calls, "e")
			default:
				var steps []string
				for _, st := range b.Steps {
					ids := make([]uint64, len(st.IDs))
					vals := make([]float64, len(st.IDs))
					for i := range st.IDs {
						ids[i], vals[i] = uint64(st.IDs[i]), float64(st.Vals[i])
					}
					steps = append(steps, coStepString(st.T, ids, vals))
				}
				calls = append(calls, strings.Join(steps, ";"))
			}
		}
		if len(calls) == 0 {
			scs = append(scs, "x")
		} else {
			scs = append(scs, strings.Join(calls, "#"))
		}
	}
	scripts := "_"
	if len(scs) > 0 {
		scripts = strings.Join(scs, "@")
	}
	step := c.Step
	if step == 0 {
		step = 1
	}
	ans, aerr := lean.Ask([]string{"case " + c.ID, fmt.Sprintf("kernel pull %d %d %d %s %s", pc.B, step, pc.Calls, pb.modelTr.String(), scripts), "end"})
	if aerr != nil {
		v.Crash = "lean: " + aerr.Error()
		return v
	}
	var mout, mleft string
	for _, f := range strings.Fields(ans["kernel"]) {
		switch {
		case strings.HasPrefix(f, "out="):
			mout = f[4:]
		case strings.HasPrefix(f, "left="):
			mleft = f[5:]
		}
	}
	if got := strings.Join(real, "#"); got != mout {
		v.EngVsModel = fmt.Sprintf("operator tree %s vs model: %s vs %s", pb.modelTr.String(), got, mout)
	} else if got := strings.Join(left, ","); got != mleft {
		v.EngVsModel = fmt.Sprintf("operator tree %s: batches left unread per scripted child: %s vs model %s", pb.modelTr.String(), got, mleft)
	}
	v.Steps = pc.Calls
	v.NumSeries = total
	v.Features = []string{c.Query, "tree:" + strings.Map(func(r rune) rune {
		if r >= '0' && r <= '9' {
			return -1
		}
		return r
	}, pc.Tree)}
	return v
}

// pullCase: operator trees over scripted children. Aligned scripts follow the leaf pattern of the
// window (batches of B steps); the perturbations are those the real operators tolerate (a child
// that ends early or returns nil in the middle, shorter and empty batches where the consumer
// guards its index, other timestamps), never the ones that make them index out of range.
func (g *Gen) pullCase(i int) *Case {
	c := &Case{ID: fmt.Sprintf("kpull-%d", i), Profile: "kpull", Query: "kernel:pull"}
	pc := &PullCase{B: int(g.pickI(1, 2, 3, 10, 10)), Lit: F(float64(g.r.Intn(9)) + 1)}
	c.Start = g.pickI(0, 1000, 1_700_000_000_000, -5000)
	c.Step = g.pickI(1, 1000, 15000, 7)
	nsteps := int(g.pickI(1, 2, 3, 9, 10, 11, 20, 21, 25))
	c.End = c.Start + int64(nsteps-1)*c.Step + g.pickI(0, 0, c.Step/2)
	if g.chance(0.5) {
		c.StartNs, c.EndNs = g.r.Int63n(1000000), g.r.Int63n(1000000)
	}
	// the aligned batches of the window
	var grid [][]int64
	for t := c.Start; t <= c.End; {
		var b []int64
		for k := 0; k < pc.B && t <= c.End; k++ {
			b = append(b, t)
			t += c.Step
		}
		grid = append(grid, b)
	}
	// no zeros: Go's math.Max / math.Min order the signed zeros, the value algebra of the model
	// identifies them (Val.lean)
	val := func() F {
		v := float64(g.r.Intn(40) - 20)
		if v == 0 {
			v = 21
		}
		return F(v)
	}
	// one script: per batch of the grid a step vector per timestamp with some of n series
	script := func(n int, one bool) []CoBatch {
		var out []CoBatch
		for _, ts := range grid {
			var b CoBatch
			for _, t := range ts {
				st := CoStep{T: t}
				for id := 0; id < n; id++ {
					if one || g.chance(0.8) {
						st.IDs = append(st.IDs, id)
						st.Vals = append(st.Vals, val())
					}
				}
				b.Steps = append(b.Steps, st)
			}
			out = append(out, b)
		}
		return out
	}
	// perturbations every consumer tolerates
	perturb := func(sc []CoBatch) []CoBatch {
		switch g.r.Intn(6) {
		case 0: // ends early
			return sc[:g.r.Intn(len(sc)+1)]
		case 1: // nil in the middle
			k := g.r.Intn(len(sc))
			out := append([]CoBatch(nil), sc[:k]...)
			out = append(out, CoBatch{Nil: true})
			return append(out, sc[k:]...)
		case 2: // a shorter batch
			k := g.r.Intn(len(sc))
			out := append([]CoBatch(nil), sc...)
			if n := len(out[k].Steps); n > 0 {
				out[k] = CoBatch{Steps: out[k].Steps[:g.r.Intn(n)]}
			}
			return out
		case 3: // shifted timestamps
			out := append([]CoBatch(nil), sc...)
			k := g.r.Intn(len(out))
			var steps []CoStep
			for _, st := range out[k].Steps {
				st.T += 3
				steps = append(steps, st)
			}
			out[k] = CoBatch{Steps: steps}
			return out
		}
		return sc
	}
	n0, n1 := int(g.pickI(1, 1, 2, 3, 5)), int(g.pickI(1, 1, 2, 4))
	switch g.r.Intn(12) {
	case 10:
		// the scalar operator guards its index: the scalar child may be shorter, longer, empty or nil,
		// and an empty batch of the vector child is passed on (the scalar child is still pulled)
		pc.Tree, pc.Sizes, pc.Scripts = "B(S0,S1)", []int{n0, 1}, [][]CoBatch{perturb(script(n0, false)), perturb(script(1, false))}
	case 11:
		pc.Tree, pc.Sizes, pc.Scripts = "Z(A(B(S0,L)),A(B(N(S1),I(S2))))", []int{n0, n1, 1}, [][]CoBatch{script(n0, false), script(n1, false), {{Steps: []CoStep{{T: c.Start, IDs: []int{0}, Vals: []F{val()}}}}}}
	case 0:
		pc.Tree, pc.Sizes, pc.Scripts = "N(S0)", []int{n0}, [][]CoBatch{perturb(script(n0, false))}
	case 1:
		pc.Tree, pc.Sizes, pc.Scripts = "A(N(S0))", []int{n0}, [][]CoBatch{perturb(script(n0, false))}
	case 2:
		// the join table keeps the left samples of earlier steps and drops right samples of another
		// timestamp: with siblings out of step it can pair a right sample with a left sample of an
		// earlier step, which a per-step function cannot express. The perturbations here - a side
		// that ends early, a right side stamped later than the left - stay clear of that.
		l, r := script(n0, false), script(n1, false)
		if g.chance(0.3) {
			l = l[:g.r.Intn(len(l)+1)]
		}
		switch g.r.Intn(4) {
		case 0:
			r = r[:g.r.Intn(len(r)+1)]
		case 1:
			k := g.r.Intn(len(r))
			var steps []CoStep
			for _, st := range r[k].Steps {
				st.T += 3
				steps = append(steps, st)
			}
			r[k] = CoBatch{Steps: steps}
		}
		pc.Tree, pc.Sizes, pc.Scripts = "Z(A(S0),A(S1))", []int{n0, n1}, [][]CoBatch{l, r}
	case 3:
		// the scalar child is pulled only when the vector child delivered: its j-th batch meets the
		// j-th non-empty batch of the vector child, and is at least as long (or nil / empty)
		vsc := perturb(script(n0, false))
		var ssc []CoBatch
		for _, b := range vsc {
			if b.Nil || len(b.Steps) == 0 {
				if len(b.Steps) == 0 {
					break // the function operator ends at an empty batch, like at nil
				}
				continue
			}
			var sb CoBatch
			switch g.r.Intn(6) {
			case 0:
				sb.Nil = true
			case 1:
			default:
				for _, st := range b.Steps {
					s := CoStep{T: st.T}
					if g.chance(0.85) {
						s.IDs, s.Vals = []int{0}, []F{val()}
					}
					sb.Steps = append(sb.Steps, s)
				}
				if g.chance(0.2) {
					sb.Steps = append(sb.Steps, CoStep{T: sb.Steps[len(sb.Steps)-1].T + c.Step, IDs: []int{0}, Vals: []F{val()}})
				}
			}
			ssc = append(ssc, sb)
		}
		pc.Tree, pc.Sizes, pc.Scripts = "F(S0,S1)", []int{n0, 1}, [][]CoBatch{vsc, ssc}
	case 4:
		// coalesce: aligned children, each of which may end early (what the operator does with
		// children of different timestamps depends on the order of arrival: Coalesce.lean, `kco`)
		early := func(sc []CoBatch) []CoBatch {
			if g.chance(0.4) {
				return sc[:g.r.Intn(len(sc)+1)]
			}
			return sc
		}
		a, b := early(script(n0, false)), early(script(n1, false))
		pc.Tree, pc.Sizes, pc.Scripts = "C(S0,S1)", []int{n0, n1}, [][]CoBatch{a, b}
	case 5:
		// the step-invariant operator reads one batch of its child: nothing, or one step vector
		var sc []CoBatch
		switch g.r.Intn(4) {
		case 0:
			sc = []CoBatch{{Nil: true}}
		case 1:
			sc = nil
		default:
			st := CoStep{T: c.Start}
			for id := 0; id < n0; id++ {
				if g.chance(0.8) {
					st.IDs = append(st.IDs, id)
					st.Vals = append(st.Vals, val())
				}
			}
			sc = []CoBatch{{Steps: []CoStep{st}}}
		}
		pc.Tree, pc.Sizes, pc.Scripts = "I(S0)", []int{n0}, [][]CoBatch{sc}
	case 6:
		pc.Tree, pc.Sizes, pc.Scripts = "Z(A(N(S0)),L)", []int{n0}, [][]CoBatch{script(n0, false)}
	case 7:
		one := []CoBatch{{Steps: []CoStep{{T: c.Start, IDs: []int{0}, Vals: []F{val()}}}}}
		pc.Tree, pc.Sizes, pc.Scripts = "F(C(S0,N(S1)),I(S2))", []int{n0, n1, 1}, [][]CoBatch{script(n0, false), script(n1, false), one}
	case 8:
		pc.Tree, pc.Sizes, pc.Scripts = "Z(A(F(S0,L)),A(C(S1,S2)))", []int{n0, n1, 2}, [][]CoBatch{script(n0, false), script(n1, false), script(2, false)}
	default:
		pc.Tree, pc.Sizes, pc.Scripts = "A(C(N(S0),F(S1,L)))", []int{n0, n1}, [][]CoBatch{script(n0, false), script(n1, false)}
	}
	pc.Calls = len(grid) + 2
	c.KPull = pc
	return c
}
