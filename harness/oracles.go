package main

// Per-case oracles and the worker / supervisor processes.

import (
	"bufio"
	"context"
	"encoding/json"
	"fmt"
	"io"
	"os"
	"os/exec"
	"runtime"
	"sort"
	"strings"
	"sync"
	"time"
)

type Verdict struct {
	ID      string `json:"id"`
	Query   string `json:"query"`
	Oracle  string `json:"oracle"`
	Skipped string `json:"skipped,omitempty"` // why the case was not evaluated
	Native  bool   `json:"native"`

	// disagreements; empty = agree
	PromVsSpec  string `json:"prom_vs_spec,omitempty"`
	EngVsModel  string `json:"eng_vs_model,omitempty"`
	EngVsProm   string `json:"eng_vs_prom,omitempty"`
	ModelVsSpec string `json:"model_vs_spec,omitempty"`
	Other       string `json:"other,omitempty"` // oracle-specific failure
	Crash       string `json:"crash,omitempty"`

	WF        []string `json:"wf,omitempty"`
	Contract  []string `json:"contract,omitempty"`
	Features  []string `json:"features,omitempty"`
	NonTriv   bool     `json:"nontrivial"`
	Tie       bool     `json:"tie,omitempty"`
	Libm      bool     `json:"libm,omitempty"` // both engines agree; the model's C math library rounds differently
	EngKind   string   `json:"eng_kind,omitempty"`
	Steps     int      `json:"steps"`
	NumSeries int      `json:"nseries"`
	Findings  []string `json:"findings,omitempty"` // known-finding ids this case falls under
}

func (v *Verdict) Bad() bool {
	return v.PromVsSpec != "" || v.EngVsModel != "" || v.EngVsProm != "" || v.Other != "" || v.Crash != "" || len(v.WF) > 0 || len(v.Contract) > 0
}

func features(sexpr string) []string {
	set := map[string]bool{}
	for _, tok := range strings.FieldsFunc(sexpr, func(r rune) bool { return r == '(' || r == ')' || r == ' ' }) {
		switch tok {
		case "num", "vsel", "msel", "agg", "bin", "neg", "pos", "paren", "si", "call", "fsel", "subq", "str", "vv", "vs", "sv", "ss":
			set[tok] = true
		}
		if strings.HasPrefix(tok, "s:") && len(tok) > 2 {
			name := tok[2:]
			switch name {
			case "x", "y", "z", "a", "b", "c", "m", "n", "le", "__name__", "h_bucket":
			default:
				if !strings.ContainsAny(name, "|.*+") {
					set["f:"+name] = true
				}
			}
		}
	}
	out := make([]string, 0, len(set))
	for k := range set {
		out = append(out, k)
	}
	sort.Strings(out)
	return out
}

func nonTrivial(r Result) bool {
	if r.Kind == "err" {
		return true
	}
	n := 0
	for _, s := range r.Series {
		n += len(s.Pts)
	}
	return n > 0
}

// diffCase: engine vs Prometheus vs Lean Spec vs Lean Model.
func diffCase(c *Case, lean *LeanDriver) Verdict {
	v := Verdict{ID: c.ID, Query: c.Query, Oracle: "diff", Steps: len(c.Grid()), NumSeries: len(c.Series)}
	plan, err := c.Preprocess()
	if err != nil {
		v.Skipped = "parse: " + err.Error()
		return v
	}
	if atInAggParam(plan) {
		v.Skipped = "at-modifier-in-aggregation-parameter"
		return v
	}
	if c.Procs > 0 {
		runtime.GOMAXPROCS(c.Procs)
	}
	ctx, cancel := context.WithTimeout(context.Background(), 60*time.Second)
	defer cancel()
	drainContract()
	eng := c.Exec(ctx, NewThanos(c, EngOpts{DisableFallback: true}), NewMemStorage(c.Data()))
	v.Contract = drainContract()
	if eng.Kind == "err" && strings.HasPrefix(eng.Err, "create: ") {
		cls := ErrClass(eng.Err)
		if cls == "unsupported" {
			v.Skipped = "not-native"
			return v
		}
	}
	v.Native = true
	v.EngKind = eng.Kind
	prom := c.Exec(ctx, NewProm(c), NewMemStorage(c.Data()))
	v.WF = eng.WF
	v.NonTriv = nonTrivial(prom)
	v.EngVsProm = Diff(eng, prom)

	lines, err := c.ProtoLines(plan, []string{"spec", "model", "ties"})
	if err != nil {
		v.Skipped = "proto: " + err.Error()
		return v
	}
	v.Features = features(lines[len(lines)-5])
	if tsPinnedOffsetMulti(plan) {
		v.Features = append(v.Features, "ts-pinned-offset-multi")
	}
	if includesName(plan) {
		v.Features = append(v.Features, "incl-name")
	}
	if inclUnderJoin(plan) {
		v.Features = append(v.Features, "incl-under-join")
	}
	ans, err := lean.Ask(lines)
	if err != nil {
		v.Other = "lean: " + err.Error()
		return v
	}
	spec, err1 := ParseLeanResult(ans["spec"])
	model, err2 := ParseLeanResult(ans["model"])
	if err1 != nil || err2 != nil {
		v.Other = fmt.Sprintf("lean answer: %v %v", err1, err2)
		return v
	}
	if ans["ties"] == "1" {
		// a topk/bottomk tie at the selection boundary: the result legitimately depends on
		// evaluation order (the reference engine itself is not deterministic there)
		v.Tie = true
		v.EngVsProm = ""
		return v
	}
	v.PromVsSpec = Diff(prom, spec)
	v.EngVsModel = Diff(eng, model)
	v.ModelVsSpec = Diff(model, spec)
	if v.EngVsProm == "" && v.ModelVsSpec == "" && v.PromVsSpec != "" && v.PromVsSpec == v.EngVsModel && usesLibm(c.Query) {
		// The two engines (Go's math package) agree with each other and the two models (the C
		// library behind Lean's Float) agree with each other: a transcendental function rounded
		// differently and something downstream (%, floor, a comparison) amplified the last bit.
		// Those functions are uninterpreted in the proofs; their values are outside the tie.
		v.Libm = true
		v.PromVsSpec, v.EngVsModel = "", ""
	}
	return v
}

var libmFns = []string{"exp(", "ln(", "log2(", "log10(", "sin(", "cos(", "tan(", "asin(", "acos(", "atan(", "sinh(", "cosh(",
	"tanh(", "asinh(", "acosh(", "atanh(", " ^ ", " atan2 "}

func usesLibm(q string) bool {
	for _, f := range libmFns {
		if strings.Contains(q, f) {
			return true
		}
	}
	return false
}

// ---------------------------------------------------------------------------------------------
// worker: cases on stdin -> verdicts on stdout (one JSON line each, flushed)

func runWorker(oracle string) {
	lean, err := StartLean()
	if err != nil {
		fmt.Fprintln(os.Stderr, "cannot start lean driver:", err)
		os.Exit(3)
	}
	defer lean.Close()
	in := bufio.NewReaderSize(os.Stdin, 1<<24)
	out := bufio.NewWriter(os.Stdout)
	for {
		line, err := in.ReadBytes('\n')
		if len(line) > 1 {
			var c Case
			if jerr := json.Unmarshal(line, &c); jerr != nil {
				fmt.Fprintln(os.Stderr, "bad case:", jerr)
				os.Exit(3)
			}
			var v Verdict
			setOverflow(&c)
			setConditioning(&c)
			switch oracle {
			case "diff":
				v = diffCase(&c, lean)
			default:
				setTolerances(c.Query)
				v = runOracle(oracle, &c, lean)
			}
			b, _ := json.Marshal(v)
			out.Write(b)
			out.WriteByte('\n')
			out.Flush()
		}
		if err != nil {
			return
		}
	}
}

// supervisor: distributes cases over worker processes; a worker that dies while processing a
// case yields a crash verdict for that case and is restarted.
func runSupervisor(oracle, in, outPath string, workers int) {
	f, err := os.Open(in)
	if err != nil {
		panic(err)
	}
	defer f.Close()
	var cases [][]byte
	rd := bufio.NewReaderSize(f, 1<<24)
	for {
		line, err := rd.ReadBytes('\n')
		if len(line) > 1 {
			cases = append(cases, append([]byte(nil), line...))
		}
		if err != nil {
			break
		}
	}
	of, err := os.Create(outPath)
	if err != nil {
		panic(err)
	}
	defer of.Close()
	var omu sync.Mutex
	ow := bufio.NewWriter(of)
	emit := func(b []byte) {
		omu.Lock()
		ow.Write(b)
		if len(b) == 0 || b[len(b)-1] != '\n' {
			ow.WriteByte('\n')
		}
		omu.Unlock()
	}
	jobs := make(chan []byte, len(cases))
	for _, c := range cases {
		jobs <- c
	}
	close(jobs)
	self, _ := os.Executable()
	var wg sync.WaitGroup
	for w := 0; w < workers; w++ {
		wg.Add(1)
		go func() {
			defer wg.Done()
			var cmd *exec.Cmd
			var errBuf *tailBuffer
			var stdin io.WriteCloser
			var stdout *bufio.Reader
			start := func() {
				cmd = exec.Command(self, "worker", "-oracle", oracle)
				cmd.Env = append(os.Environ(), "GORACE=halt_on_error=1 exitcode=66")
				errBuf = &tailBuffer{max: 6000}
				cmd.Stderr = errBuf
				stdin, _ = cmd.StdinPipe()
				so, _ := cmd.StdoutPipe()
				stdout = bufio.NewReaderSize(so, 1<<24)
				if err := cmd.Start(); err != nil {
					panic(err)
				}
			}
			stop := func() {
				if cmd != nil {
					stdin.Close()
					cmd.Wait()
					cmd = nil
				}
			}
			start()
			for job := range jobs {
				if cmd == nil {
					start()
				}
				stdin.Write(job)
				type res struct {
					b   []byte
					err error
				}
				ch := make(chan res, 1)
				go func() {
					b, err := stdout.ReadBytes('\n')
					ch <- res{b, err}
				}()
				var r res
				select {
				case r = <-ch:
				case <-time.After(120 * time.Second):
					cmd.Process.Kill()
					r = res{nil, fmt.Errorf("timeout")}
				}
				if r.err != nil {
					var c Case
					json.Unmarshal(job, &c)
					cmd.Process.Kill()
					st := ""
					if werr := cmd.Wait(); werr != nil {
						st = werr.Error()
					}
					cmd = nil
					msg := errBuf.String()
					if i := strings.Index(msg, "WARNING: DATA RACE"); i >= 0 {
						msg = msg[i:]
					} else if i := strings.Index(msg, "panic:"); i >= 0 {
						msg = msg[i:]
					} else if i := strings.Index(msg, "fatal error:"); i >= 0 {
						msg = msg[i:]
					}
					if len(msg) > 1500 {
						msg = msg[:1500]
					}
					v := Verdict{ID: c.ID, Query: c.Query, Oracle: oracle, Crash: "worker died: " + r.err.Error() + " " + st + " | " + strings.ReplaceAll(msg, "\n", " | "), Native: true}
					b, _ := json.Marshal(v)
					emit(b)
					continue
				}
				emit(r.b)
			}
			stop()
		}()
	}
	wg.Wait()
	ow.Flush()
}

// tailBuffer keeps the first bytes written to it (enough for a panic / race header).
type tailBuffer struct {
	mu  sync.Mutex
	buf []byte
	max int
}

func (t *tailBuffer) Write(p []byte) (int, error) {
	t.mu.Lock()
	defer t.mu.Unlock()
	if len(t.buf) < t.max {
		n := t.max - len(t.buf)
		if n > len(p) {
			n = len(p)
		}
		t.buf = append(t.buf, p[:n]...)
	}
	return len(p), nil
}

func (t *tailBuffer) String() string {
	t.mu.Lock()
	defer t.mu.Unlock()
	return string(t.buf)
}
