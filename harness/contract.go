//go:build verif

package main

// The operator-boundary wrapper (C18): checks the stream contract at every Series/Next of every
// operator newOperator builds. It checks the predicate only; it never compares internal
// streams with the model, so a refactoring that keeps the contract does not alarm.

import (
	"context"
	"fmt"
	"math"
	"runtime"
	"sync"
	"sync/atomic"

	"github.com/prometheus/prometheus/model/labels"
	"github.com/prometheus/prometheus/model/value"
	"github.com/prometheus/prometheus/promql/parser"

	"github.com/thanos-community/promql-engine/execution"
	"github.com/thanos-community/promql-engine/execution/model"
	"github.com/thanos-community/promql-engine/query"
)

var contractMu sync.Mutex
var contractViolations []string
var contractOps int64
var contractYield int32

func contractReport(format string, a ...any) {
	contractMu.Lock()
	if len(contractViolations) < 8 {
		contractViolations = append(contractViolations, fmt.Sprintf(format, a...))
	}
	contractMu.Unlock()
}

func drainContract() []string {
	contractMu.Lock()
	defer contractMu.Unlock()
	out := contractViolations
	contractViolations = nil
	return out
}

type contractOp struct {
	next model.VectorOperator
	desc string

	stepsBatch int
	mint, maxt int64
	step       int64

	mu        sync.Mutex
	series    []labels.Labels
	hasSeries bool
	lastT     int64
	anyT      bool
	ended     bool
	errored   bool
	inflight  int32
	expectT   int64
}

func init() {
	execution.VerifWrap = func(op model.VectorOperator, expr parser.Expr, opts *query.Options) model.VectorOperator {
		atomic.AddInt64(&contractOps, 1)
		step := opts.Step.Milliseconds()
		return &contractOp{next: op, desc: fmt.Sprintf("%T(%s)", op, trunc(expr.String())), stepsBatch: int(opts.StepsBatch),
			mint: opts.Start.UnixMilli(), maxt: opts.End.UnixMilli(), step: step, expectT: opts.Start.UnixMilli()}
	}
}

func (c *contractOp) Explain() (string, []model.VectorOperator) { return c.next.Explain() }
func (c *contractOp) GetPool() *model.VectorPool                { return c.next.GetPool() }

func deepCopySeries(s []labels.Labels) []labels.Labels {
	out := make([]labels.Labels, len(s))
	for i := range s {
		out[i] = s[i].Copy()
	}
	return out
}

func sameSeries(a, b []labels.Labels) bool {
	if len(a) != len(b) {
		return false
	}
	for i := range a {
		if !labels.Equal(a[i], b[i]) {
			return false
		}
	}
	return true
}

func (c *contractOp) Series(ctx context.Context) ([]labels.Labels, error) {
	if atomic.LoadInt32(&contractYield) != 0 {
		runtime.Gosched()
	}
	s, err := c.next.Series(ctx)
	if err != nil {
		return s, err
	}
	c.mu.Lock()
	defer c.mu.Unlock()
	if c.hasSeries && !sameSeries(c.series, s) {
		contractReport("%s: Series() changed between calls (%d -> %d series)", c.desc, len(c.series), len(s))
	}
	if !c.hasSeries {
		c.series = deepCopySeries(s)
		c.hasSeries = true
	}
	return s, nil
}

func (c *contractOp) Next(ctx context.Context) ([]model.StepVector, error) {
	if atomic.AddInt32(&c.inflight, 1) > 1 {
		contractReport("%s: asked for two batches concurrently", c.desc)
	}
	defer atomic.AddInt32(&c.inflight, -1)
	if atomic.LoadInt32(&contractYield) != 0 {
		runtime.Gosched()
	}
	batch, err := c.next.Next(ctx)
	c.mu.Lock()
	defer c.mu.Unlock()
	if err != nil {
		c.errored = true
		return batch, err
	}
	if batch == nil {
		c.ended = true
		// the series list must still be what it was when it was first handed out - also when
		// somebody wrote through the label slices it shares with its consumers
		if c.hasSeries {
			c.mu.Unlock()
			s, serr := c.next.Series(ctx)
			c.mu.Lock()
			if serr == nil && !sameSeries(c.series, s) {
				contractReport("%s: the series list changed during the query (label sets rewritten in place)", c.desc)
			}
		}
		return nil, nil
	}
	if c.ended {
		contractReport("%s: produced a batch after signalling the end of its stream", c.desc)
	}
	if c.stepsBatch > 0 && len(batch) > c.stepsBatch {
		contractReport("%s: batch of %d step vectors exceeds the batch size %d", c.desc, len(batch), c.stepsBatch)
	}
	if len(batch) == 0 && !c.errored {
		contractReport("%s: empty non-nil batch (no step vector for the steps of this batch)", c.desc)
	}
	// the series list is needed to validate IDs; ask for it the way a consumer may
	if !c.hasSeries {
		c.mu.Unlock()
		s, serr := c.next.Series(ctx)
		c.mu.Lock()
		if serr == nil && !c.hasSeries {
			c.series = deepCopySeries(s)
			c.hasSeries = true
		}
	}
	for _, v := range batch {
		if c.anyT && v.T <= c.lastT {
			contractReport("%s: step order violated: vector at T=%d after T=%d", c.desc, v.T, c.lastT)
		}
		// one vector per evaluation step, none skipped or repeated
		if v.T != c.expectT {
			contractReport("%s: expected the step vector of T=%d, got T=%d", c.desc, c.expectT, v.T)
			c.expectT = v.T
		}
		if c.step > 0 {
			c.expectT += c.step
		} else {
			c.expectT++
		}
		c.lastT, c.anyT = v.T, true
		if v.T < c.mint || v.T > c.maxt {
			contractReport("%s: step vector at T=%d outside the window [%d, %d]", c.desc, v.T, c.mint, c.maxt)
		}
		if len(v.SampleIDs) != len(v.Samples) {
			contractReport("%s: %d sample IDs for %d samples at T=%d", c.desc, len(v.SampleIDs), len(v.Samples), v.T)
			continue
		}
		seen := make(map[uint64]struct{}, len(v.SampleIDs))
		for i, id := range v.SampleIDs {
			if _, dup := seen[id]; dup {
				contractReport("%s: sample ID %d repeated within the step T=%d", c.desc, id, v.T)
			}
			seen[id] = struct{}{}
			if c.hasSeries && id >= uint64(len(c.series)) {
				contractReport("%s: sample ID %d does not index the series list (%d series) at T=%d", c.desc, id, len(c.series), v.T)
			}
			if math.Float64bits(v.Samples[i]) == value.StaleNaN {
				contractReport("%s: staleness marker emitted at T=%d", c.desc, v.T)
			}
		}
	}
	return batch, nil
}

func contractEnabled() bool { return true }
