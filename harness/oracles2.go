package main

// Property oracles on the real code (T3): optimizer sets, range vs instant, shard counts and
// storage order, select hints, distributed execution, fallback routing.

import (
	"context"
	"fmt"
	"math/rand"
	"os"
	"runtime"
	"sort"
	"strings"
	"sync/atomic"
	"time"

	"github.com/prometheus/client_golang/prometheus"
	dto "github.com/prometheus/client_model/go"
	"github.com/prometheus/prometheus/model/labels"
	"github.com/prometheus/prometheus/promql"
	"github.com/prometheus/prometheus/promql/parser"
	"github.com/prometheus/prometheus/storage"

	"github.com/thanos-community/promql-engine/api"
	"github.com/thanos-community/promql-engine/engine"
)

func bg() (context.Context, context.CancelFunc) {
	return context.WithTimeout(context.Background(), 60*time.Second)
}

func (c *Case) clone() *Case {
	d := *c
	return &d
}

func execThanos(c *Case, st storage.Queryable) Result {
	ctx, cancel := bg()
	defer cancel()
	if c.Procs > 0 {
		runtime.GOMAXPROCS(c.Procs)
	}
	return c.Exec(ctx, NewThanos(c, EngOpts{DisableFallback: true}), st)
}

func notNative(r Result) bool {
	return r.Kind == "err" && strings.HasPrefix(r.Err, "create: ") && ErrClass(r.Err) == "unsupported"
}

// leanInfo asks the driver for the views; returns nil on protocol trouble.
func leanInfo(c *Case, lean *LeanDriver, views ...string) (map[string]string, string, error) {
	plan, err := c.Preprocess()
	if err != nil {
		return nil, "", err
	}
	lines, err := c.ProtoLines(plan, views)
	if err != nil {
		return nil, "", err
	}
	ans, err := lean.Ask(lines)
	return ans, lines[len(lines)-2-len(views)], err
}

func baseVerdict(c *Case, oracle string) Verdict {
	return Verdict{ID: c.ID, Query: c.Query, Oracle: oracle, Steps: len(c.Grid()), NumSeries: len(c.Series), Native: true}
}

// ---------------------------------------------------------------------------------------------
// C09: every optimizer set gives the result of no optimizers

var optSets = []string{"default", "all", "sort", "merge", "prop"}

func optCase(c *Case, lean *LeanDriver) Verdict {
	v := baseVerdict(c, "opt")
	base := c.clone()
	base.Opt = "none"
	ref := execThanos(base, NewMemStorage(c.Data()))
	if notNative(ref) {
		v.Skipped = "not-native"
		return v
	}
	v.NonTriv = nonTrivial(ref)
	if ans, q, err := leanInfo(c, lean, "ties"); err == nil {
		v.Features = features(q)
		if ans["ties"] == "1" {
			v.Tie = true
			return v
		}
	}
	for _, o := range optSets {
		d := c.clone()
		d.Opt = o
		r := execThanos(d, NewMemStorage(c.Data()))
		if notNative(r) {
			continue
		}
		if df := Diff(r, ref); df != "" {
			v.Other = fmt.Sprintf("optimizers=%s differs from none: %s", o, df)
			return v
		}
		// explaining the plan (Opts.DebugWriter) must not change it
		ctx, cancel := bg()
		rd := d.Exec(ctx, NewThanos(d, EngOpts{DisableFallback: true, Debug: true}), NewMemStorage(c.Data()))
		cancel()
		if df := Diff(rd, ref); df != "" && !notNative(rd) {
			v.Other = fmt.Sprintf("optimizers=%s with a debug writer differs from none: %s", o, df)
			return v
		}
	}
	return v
}

// ---------------------------------------------------------------------------------------------
// C07: range result = instant results on the grid; sub-window law

func rangeInstCase(c *Case, lean *LeanDriver) Verdict {
	v := baseVerdict(c, "rangeinst")
	if c.Instant() || strings.Contains(c.Query, "start()") || strings.Contains(c.Query, "end()") {
		v.Skipped = "not-applicable"
		return v
	}
	rr := execThanos(c, NewMemStorage(c.Data()))
	if notNative(rr) {
		v.Skipped = "not-native"
		return v
	}
	if ans, q, err := leanInfo(c, lean, "ties"); err == nil {
		v.Features = features(q)
		if ans["ties"] == "1" {
			v.Tie = true
			return v
		}
	}
	v.NonTriv = nonTrivial(rr)
	if plan, err := c.Preprocess(); err == nil && movingParamUnderWrapper(plan) {
		v.Features = append(v.Features, "si-agg-moving-param")
	}
	// assemble the instants into a matrix
	type key = string
	pts := map[key][]Pt{}
	anyErr := ""
	for _, t := range c.Grid() {
		d := c.clone()
		d.Start, d.End, d.Step = t, t, 0
		ir := execThanos(d, NewMemStorage(c.Data()))
		if ir.Kind == "err" {
			anyErr = ir.Err
			break
		}
		for _, s := range ir.Series {
			for _, p := range s.Pts {
				pts[s.Labels] = append(pts[s.Labels], Pt{T: t, V: p.V})
			}
		}
	}
	var inst Result
	if anyErr != "" {
		inst = Result{Kind: "err", Err: anyErr}
	} else {
		inst = Result{Kind: "matrix"}
		for l, p := range pts {
			inst.Series = append(inst.Series, RSeries{Labels: l, Pts: p})
		}
		sortSeries(inst.Series)
	}
	if len(rr.WF) == 0 { // duplicate label sets make the per-label assembly ambiguous
		if df := Diff(rr, inst); df != "" {
			v.Other = "range vs instants: " + df
			return v
		}
	}
	// sub-window on the same grid
	g := c.Grid()
	if len(g) >= 3 && rr.Kind != "err" {
		r := rand.New(rand.NewSource(int64(len(c.Query)) + c.Start))
		i := r.Intn(len(g) - 1)
		j := i + r.Intn(len(g)-i)
		d := c.clone()
		d.Start, d.End = g[i], g[j]
		sub := execThanos(d, NewMemStorage(c.Data()))
		want := Result{Kind: rr.Kind}
		for _, s := range rr.Series {
			ns := RSeries{Labels: s.Labels}
			for _, p := range s.Pts {
				if p.T >= g[i] && p.T <= g[j] {
					ns.Pts = append(ns.Pts, p)
				}
			}
			if len(ns.Pts) > 0 {
				want.Series = append(want.Series, ns)
			}
		}
		sortSeries(want.Series)
		if df := Diff(sub, want); df != "" && len(rr.WF) == 0 {
			v.Other = fmt.Sprintf("sub-window [%d,%d]: %s", g[i], g[j], df)
		}
	}
	return v
}

// ---------------------------------------------------------------------------------------------
// C11: independent of GOMAXPROCS, storage order, unrelated series, repetition

func procsCase(c *Case, lean *LeanDriver) Verdict {
	v := baseVerdict(c, "procs")
	c = c.clone()
	c.Opt = "default"
	base := c.clone()
	base.Procs = 2
	ref := execThanos(base, NewMemStorage(c.Data()))
	if notNative(ref) {
		v.Skipped = "not-native"
		return v
	}
	if ans, q, err := leanInfo(c, lean, "tiesp"); err == nil {
		v.Features = features(q)
		if ans["tiesp"] == "1" {
			v.Tie = true
			return v
		}
	}
	v.NonTriv = nonTrivial(ref)
	r := rand.New(rand.NewSource(int64(len(c.Series))*7919 + c.Start))
	for _, p := range []int{1, 3, 4, 6, 8, 12, 16, 2} {
		d := c.clone()
		d.Procs = p
		data := c.Data()
		what := fmt.Sprintf("GOMAXPROCS=%d", p)
		if p != 1 {
			r.Shuffle(len(data), func(i, j int) { data[i], data[j] = data[j], data[i] })
			what += "+permuted"
		}
		if p%3 == 0 && !selectsUnrelated(c) {
			// series no selector of the query can match (other metric names)
			for k := 0; k < 3; k++ {
				data = append(data, SeriesData{
					Labels:  labels.FromStrings("__name__", fmt.Sprintf("unrelated_%d", k), "a", "x"),
					Samples: []Sample{{T: c.Start, V: float64(k)}, {T: c.Start - 1000, V: 1}},
				})
			}
			r.Shuffle(len(data), func(i, j int) { data[i], data[j] = data[j], data[i] })
			what += "+unrelated"
		}
		st := NewMemStorage(data)
		if p%4 == 0 {
			var iters int64
			st.SetHook(func(kind string, n int64, info any) Action {
				if n%7 == 0 {
					runtime.Gosched()
				}
				if n%53 == 0 {
					time.Sleep(50 * time.Microsecond)
				}
				if kind == EvIterator && atomic.AddInt64(&iters, 1) < 200 {
					// widen the window between a loader obtaining its shard and reading it
					time.Sleep(300 * time.Microsecond)
				}
				return Action{}
			})
			what += "+yields"
		}
		got := execThanos(d, st)
		if df := Diff(got, ref); df != "" {
			v.Other = what + ": " + df
			return v
		}
	}
	return v
}

// selectsUnrelated: does some selector of the query match a series {__name__="unrelated_k", a="x"}
// (a selector that names its metric by a regex or a negative matcher can)? Then those series are
// not unrelated to the query.
func selectsUnrelated(c *Case) bool {
	expr, err := parser.ParseExpr(c.Query)
	if err != nil {
		return true
	}
	found := false
	parser.Inspect(expr, func(n parser.Node, _ []parser.Node) error {
		vs, ok := n.(*parser.VectorSelector)
		if !ok {
			return nil
		}
		for k := 0; k < 3; k++ {
			ls := labels.FromStrings("__name__", fmt.Sprintf("unrelated_%d", k), "a", "x")
			all := true
			for _, m := range vs.LabelMatchers {
				if !m.Matches(ls.Get(m.Name)) {
					all = false
					break
				}
			}
			if all {
				found = true
			}
		}
		return nil
	})
	return found
}

// ---------------------------------------------------------------------------------------------
// C16: select hints equal the reference engine's; the hinted range is sufficient

// safeSexpr renders the plan, or "" when it holds something the protocol cannot express (e.g. an
// unresolved `@ end()` inside an aggregation parameter, which PreprocessExpr leaves alone).
func safeSexpr(e parser.Expr) (out string) {
	defer func() {
		if r := recover(); r != nil {
			out = ""
		}
	}()
	return Sexpr(e)
}

func hintKey(s SelectRecord) string {
	g := append([]string(nil), s.Hints.Grouping...)
	sort.Strings(g) // the grouping labels are a set
	return fmt.Sprintf("m=%v start=%d end=%d step=%d range=%d func=%s by=%v grouping=%v",
		s.Matchers, s.Hints.Start, s.Hints.End, s.Hints.Step, s.Hints.Range, s.Hints.Func, s.Hints.By, g)
}

func hintsCase(c *Case, lean *LeanDriver) Verdict {
	v := baseVerdict(c, "hints")
	base := c.clone()
	base.Opt = "none"
	st := NewMemStorage(c.Data())
	ref := execThanos(base, st)
	if notNative(ref) {
		v.Skipped = "not-native"
		return v
	}
	v.NonTriv = nonTrivial(ref)
	tie := false
	modelHints := ""
	haveModel := false
	if ans, q, err := leanInfo(c, lean, "ties", "hints"); err == nil {
		v.Features = features(q)
		tie = ans["ties"] == "1"
		modelHints, haveModel = ans["hints"]
	}
	// the Lean model of newOperator's hint propagation against what the real engine handed to the
	// storage: function, by/without, grouping labels, step and range, as sets (identical selectors
	// share a select)
	if haveModel && modelHints != "bad-op" && ref.Kind != "err" {
		fg := func(fn string, by bool, grouping []string, step, rng string) string {
			g := append([]string(nil), grouping...)
			sort.Strings(g)
			b := "0"
			if by {
				b = "1"
			}
			return fn + "|" + b + "|" + strings.Join(g, ",") + "|step=" + step + "|range=" + rng
		}
		em := map[string]bool{}
		for _, r := range st.Selects {
			em[fg(r.Hints.Func, r.Hints.By, r.Hints.Grouping, fmt.Sprint(r.Hints.Step), fmt.Sprint(r.Hints.Range))] = true
		}
		mm := map[string]bool{}
		if modelHints != "" {
			for _, h := range strings.Split(modelHints, ";") {
				p := strings.Split(h, "|")
				if len(p) == 5 {
					var g []string
					if p[2] != "" {
						g = strings.Split(p[2], ",")
					}
					mm[fg(p[0], p[1] == "1", g, p[3], p[4])] = true
				} else {
					mm["unparsed:"+h] = true
				}
			}
		}
		keys := func(m map[string]bool) []string {
			var out []string
			for k := range m {
				out = append(out, k)
			}
			sort.Strings(out)
			return out
		}
		if e, m := strings.Join(keys(em), " ; "), strings.Join(keys(mm), " ; "); e != m {
			v.EngVsModel = fmt.Sprintf("function/grouping/step/range hints: engine {%s} vs model {%s}", e, m)
		}
	}
	pst := NewMemStorage(c.Data())
	ctx, cancel := bg()
	defer cancel()
	c.Exec(ctx, NewProm(c), pst)
	// the engine shares one select between identical selectors: compare as sets
	set := func(rs []SelectRecord) []string {
		m := map[string]bool{}
		for _, r := range rs {
			m[hintKey(r)] = true
		}
		var out []string
		for k := range m {
			out = append(out, k)
		}
		sort.Strings(out)
		return out
	}
	es, ps := set(st.Selects), set(pst.Selects)
	// Prometheus' PreprocessExpr ignores the parameter of an aggregation when deciding step
	// invariance; selectors of such a parameter are hinted with the whole window by the
	// reference although it evaluates them at the start only - not compared.
	planStr := ""
	if plan, err := c.Preprocess(); err == nil {
		planStr = safeSexpr(plan)
	}
	same := strings.Join(es, "\n") == strings.Join(ps, "\n")
	if ref.Kind == "err" {
		// a query that fails while it runs (topk(1e30, ..)) stops before every operand has loaded
		// its series; the reference engine issues all selects before it evaluates anything. What
		// the engine did issue must still be what the reference issues for those selectors.
		same = true
		pm := map[string]bool{}
		for _, k := range ps {
			pm[k] = true
		}
		for _, k := range es {
			if !pm[k] {
				same = false
			}
		}
	}
	movingParam := false
	if plan, err := c.Preprocess(); err == nil {
		movingParam = movingParamUnderWrapper(plan)
	}
	if !strings.Contains(planStr, "(si (agg") && !movingParam && !same {
		v.Other = fmt.Sprintf("selects differ: engine %v vs reference %v", es, ps)
		return v
	}
	// sufficiency: drop every sample outside [hints.Start, hints.End]
	for _, o := range []string{"none", "default", "all"} {
		d := c.clone()
		d.Opt = o
		fs := NewMemStorage(c.Data())
		fs.NoTrimToQuerier = true // the baseline sees every sample
		full := execThanos(d, fs)
		ts := NewMemStorage(c.Data())
		ts.TrimToHints = true
		trimmed := execThanos(d, ts)
		if df := Diff(trimmed, full); df != "" && !tie {
			v.Other = fmt.Sprintf("hinted range insufficient (optimizers=%s): %s", o, df)
			return v
		}
	}
	return v
}

// ---------------------------------------------------------------------------------------------
// C10: distributed = central over the union

type remoteEngine struct {
	c  *Case
	st storage.Queryable
}

func (r remoteEngine) eng() queryEngine {
	return NewThanos(r.c, EngOpts{})
}
func (r remoteEngine) NewInstantQuery(opts *promql.QueryOpts, qs string, ts time.Time) (promql.Query, error) {
	return r.eng().NewInstantQuery(r.st, opts, qs, ts)
}
func (r remoteEngine) NewRangeQuery(opts *promql.QueryOpts, qs string, start, end time.Time, interval time.Duration) (promql.Query, error) {
	if os.Getenv("VERIF_DEBUG_REMOTE") != "" {
		fmt.Fprintf(os.Stderr, "REMOTE range %q %v %v %v\n", qs, start.UnixMilli(), end.UnixMilli(), interval)
	}
	return r.eng().NewRangeQuery(r.st, opts, qs, start, end, interval)
}

func distCase(c *Case, lean *LeanDriver) Verdict {
	v := baseVerdict(c, "dist")
	central := execThanos(c, NewMemStorage(c.Data()))
	if notNative(central) {
		// the remote engines may answer their part through the fallback; the central answer is
		// then the reference engine's
		ctx0, cancel0 := bg()
		central = c.Exec(ctx0, NewProm(c), NewMemStorage(c.Data()))
		cancel0()
		if central.Kind == "err" || strings.Contains(c.Query, "topk") || strings.Contains(c.Query, "bottomk") {
			// (without the model there is no tie analysis for k-selections)
			v.Skipped = "not-native"
			return v
		}
	}
	if ans, q, err := leanInfo(c, lean, "tiesp"); err == nil {
		v.Features = features(q)
		if ans["tiesp"] == "1" {
			v.Tie = true
			return v
		}
	}
	v.NonTriv = nonTrivial(central)
	data := c.Data()
	parts := c.Parts
	if len(parts) == 0 {
		// a case of a profile without partitions: deal the series out to 2-4 engines
		np := 2 + int((c.Start%3+3)%3)
		parts = make([][]int, np)
		for i := range data {
			parts[i%np] = append(parts[i%np], i)
		}
	}
	var engines []api.RemoteEngine
	for _, p := range parts {
		var sd []SeriesData
		for _, i := range p {
			if i < len(data) {
				sd = append(sd, data[i])
			}
		}
		engines = append(engines, remoteEngine{c: c, st: NewMemStorage(sd)})
	}
	if c.Procs > 0 {
		runtime.GOMAXPROCS(c.Procs)
	}
	de := engine.NewDistributedEngine(engine.Opts{
		EngineOpts: promql.EngineOpts{Timeout: time.Hour, MaxSamples: 50000000,
			LookbackDelta: time.Duration(c.Lookback) * time.Millisecond, EnableAtModifier: true, EnableNegativeOffset: true},
		DisableFallback: true,
	}, api.NewStaticEndpoints(engines))
	ctx, cancel := bg()
	defer cancel()
	// as in the repository's own tests, the local queryable of the distributed engine is the union
	drainContract()
	dist := c.Exec(ctx, de, NewMemStorage(c.Data()))
	// the stream contract of every operator of the coordinator and of the remote engines
	// (remote execution operators included)
	v.Contract = drainContract()
	if notNative(dist) {
		// the coordinating engine cannot run the rewritten plan itself (e.g. hour(), which is not
		// distributed and not supported natively): as deployed, it hands the query to its fallback
		deFb := engine.NewDistributedEngine(engine.Opts{
			EngineOpts: promql.EngineOpts{Timeout: time.Hour, MaxSamples: 50000000,
				LookbackDelta: time.Duration(c.Lookback) * time.Millisecond, EnableAtModifier: true, EnableNegativeOffset: true},
		}, api.NewStaticEndpoints(engines))
		dist = c.Exec(ctx, deFb, NewMemStorage(c.Data()))
		v.Features = append(v.Features, "coordinator-fallback")
		if dist.Kind == "err" && central.Kind != "err" {
			v.Skipped = "not-native-distributed"
			return v
		}
	}
	if df := Diff(dist, central); df != "" {
		v.Other = fmt.Sprintf("distributed (%d partitions) vs central: %s", len(parts), df)
	}
	return v
}

// ---------------------------------------------------------------------------------------------
// C08: fallback routing, creation errors, counter

func counterValues(reg *prometheus.Registry) map[string]float64 {
	out := map[string]float64{}
	mfs, _ := reg.Gather()
	for _, mf := range mfs {
		if mf.GetName() != "promql_engine_queries_total" {
			continue
		}
		for _, m := range mf.GetMetric() {
			out[labelOf(m, "fallback")] = m.GetCounter().GetValue()
		}
	}
	return out
}

func labelOf(m *dto.Metric, name string) string {
	for _, l := range m.GetLabel() {
		if l.GetName() == name {
			return l.GetValue()
		}
	}
	return ""
}

func fallbackCase(c *Case, lean *LeanDriver) Verdict {
	v := baseVerdict(c, "fallback")
	expr, perr := parser.ParseExpr(c.Query)
	ctx, cancel := bg()
	defer cancel()
	prom := c.Exec(ctx, NewProm(c), NewMemStorage(c.Data()))
	if perr != nil {
		v.Skipped = "parse"
		return v
	}
	if atInAggParam(expr) {
		v.Skipped = "at-modifier-in-aggregation-parameter"
		return v
	}
	promRejects := prom.Kind == "err" && strings.HasPrefix(prom.Err, "create: ")
	// what the model says about nativeness
	modelNative := ""
	if plan, err := c.Preprocess(); err == nil {
		if lines, err := c.ProtoLines(plan, []string{"native"}); err == nil {
			if ans, err := lean.Ask(lines); err == nil {
				modelNative = ans["native"]
				v.Features = features(lines[len(lines)-3])
			}
		}
	}
	_ = expr
	// fallback enabled
	reg := prometheus.NewRegistry()
	e1 := NewThanos(c, EngOpts{Reg: reg})
	q, err := c.NewQuery(e1, NewMemStorage(c.Data()))
	cnt := counterValues(reg)
	var withFB Result
	if err != nil {
		withFB = Result{Kind: "err", Err: "create: " + err.Error()}
	} else {
		withFB = Canon(q.Exec(ctx), c)
		q.Close()
	}
	total := cnt["true"] + cnt["false"]
	if err == nil && total != 1 {
		v.Other = fmt.Sprintf("counter incremented %v times for one created query: %v", total, cnt)
		return v
	}
	// fallback disabled
	reg2 := prometheus.NewRegistry()
	e2 := NewThanos(c, EngOpts{Reg: reg2, DisableFallback: true})
	q2, err2 := c.NewQuery(e2, NewMemStorage(c.Data()))
	cnt2 := counterValues(reg2)
	native := err2 == nil
	var noFB Result
	if err2 != nil {
		noFB = Result{Kind: "err", Err: "create: " + err2.Error()}
	} else {
		noFB = Canon(q2.Exec(ctx), c)
		q2.Close()
	}
	v.Native = native
	v.NonTriv = true
	if promRejects {
		// e.g. a range query over a non vector/scalar expression: both must reject
		if err == nil {
			v.Other = "reference rejects the query at creation, engine accepts it: " + prom.Err
		}
		return v
	}
	if err != nil {
		v.Other = "fallback enabled but the query is rejected: " + err.Error()
		return v
	}
	if native {
		if cnt["false"] != 1 || cnt2["false"] != 1 || cnt2["true"] != 0 {
			v.Other = fmt.Sprintf("native query counted as %v / %v", cnt, cnt2)
			return v
		}
		if df := Diff(withFB, noFB); df != "" {
			v.Other = "native query differs with fallback on/off: " + df
			return v
		}
		// accepted natively, then failing with an internal error where the reference answers:
		// the construct was not supported after all ("never degrade")
		if withFB.Kind == "err" && prom.Kind != "err" && strings.Contains(withFB.Err, "unexpected error") {
			v.Other = "natively accepted query fails with an internal error where the reference engine answers: " + withFB.Err
			return v
		}
	} else {
		if ErrClass(noFB.Err) != "unsupported" {
			v.Other = "fallback disabled: creation error does not identify itself as unsupported: " + noFB.Err
			return v
		}
		if cnt["true"] != 1 {
			v.Other = fmt.Sprintf("fallback query counted as %v", cnt)
			return v
		}
		if cnt2["true"] != 0 {
			v.Other = fmt.Sprintf("fallback disabled but counted as fallback: %v", cnt2)
			return v
		}
		// answered exactly as the reference engine answers it
		if df := Diff(withFB, prom); df != "" {
			v.Other = "fallback result differs from the reference engine: " + df
			return v
		}
		// ... also with per-query options
		c2 := c.clone()
		c2.QLookback = 1000
		p2 := c2.Exec(ctx, NewProm(c2), NewMemStorage(c2.Data()))
		f2 := c2.Exec(ctx, NewThanos(c2, EngOpts{}), NewMemStorage(c2.Data()))
		if df := Diff(f2, p2); df != "" {
			v.Other = "fallback result with a per-query lookback differs from the reference engine: " + df
			return v
		}
	}
	v.Features = append(v.Features, "model-native:"+modelNative)
	if modelNative != "" && modelNative != "bad-op" {
		if (modelNative == "1") != native {
			v.EngVsModel = fmt.Sprintf("model says native=%s, engine native=%v", modelNative, native)
		}
	}
	// the same query through a distributed engine (fallback enabled) whose remote engines run
	// without fallback: whatever a remote engine cannot do must still be answered - by the
	// coordinator's fallback - and never surface as an error where the reference engine answers
	if v.Other == "" && prom.Kind != "err" {
		if msg := distributedFallback(ctx, c, prom); msg != "" {
			v.Other = msg
		}
	}
	return v
}

func distributedFallback(ctx context.Context, c *Case, prom Result) string {
	data := c.Data()
	parts := [][]SeriesData{nil, nil}
	for i, s := range data {
		parts[i%2] = append(parts[i%2], s)
	}
	eo := promql.EngineOpts{Timeout: time.Hour, MaxSamples: 50000000,
		LookbackDelta: time.Duration(c.Lookback) * time.Millisecond, EnableAtModifier: true, EnableNegativeOffset: true}
	var remotes []api.RemoteEngine
	for _, p := range parts {
		remotes = append(remotes, engine.NewLocalEngine(engine.Opts{EngineOpts: eo, DisableFallback: true}, NewMemStorage(p)))
	}
	de := engine.NewDistributedEngine(engine.Opts{EngineOpts: eo}, api.NewStaticEndpoints(remotes))
	dist := c.Exec(ctx, de, NewMemStorage(c.Data()))
	if dist.Kind == "err" {
		return fmt.Sprintf("distributed engine with fallback (remote engines without): %s, where the reference engine answers", dist.Err)
	}
	return ""
}
