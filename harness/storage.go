package main

// In-memory storage.Queryable over explicit series, with one interposition
// point (Hooks.Ev) through which every storage interaction passes. The hook is
// what the fault / panic / cancel / counting / recording oracles plug into.

import (
	"context"
	"math"
	"sort"
	"sync"
	"sync/atomic"

	"github.com/prometheus/prometheus/model/histogram"
	"github.com/prometheus/prometheus/model/labels"
	"github.com/prometheus/prometheus/model/value"
	"github.com/prometheus/prometheus/storage"
	"github.com/prometheus/prometheus/tsdb/chunkenc"
)

type Sample struct {
	T     int64
	V     float64
	Stale bool
}

func (s Sample) Val() float64 {
	if s.Stale {
		return math.Float64frombits(value.StaleNaN)
	}
	return s.V
}

type SeriesData struct {
	Labels  labels.Labels
	Samples []Sample
}

// Event kinds passed to the hook.
const (
	EvQuerier  = "querier"
	EvSelect   = "select"
	EvSetNext  = "set.next"
	EvSetErr   = "set.err"
	EvLabels   = "labels"
	EvIterator = "iterator"
	EvSeek     = "it.seek"
	EvNext     = "it.next"
	EvAt       = "it.at"
	EvItErr    = "it.err"
	EvClose    = "close"
)

// Action returned by a hook for one event.
type Action struct {
	Err   error // inject: the interaction reports this error
	Panic any   // inject: panic with this value
}

type HookFn func(kind string, n int64, info any) Action

type SelectRecord struct {
	Mint, Maxt int64
	Hints      storage.SelectHints
	Matchers   []string
	Sorted     bool
}

type MemStorage struct {
	Series []SeriesData
	// TrimToHints drops, per select, every sample outside [hints.Start, hints.End].
	TrimToHints bool
	// ShareLabels hands out the very same label slices on every call.
	ShareLabels bool
	// NoTrimToQuerier disables the default of a real TSDB: a querier opened for [mint, maxt]
	// only sees the samples inside that range.
	NoTrimToQuerier bool

	hook    HookFn
	counter int64

	mu      sync.Mutex
	Opens   int64
	Closes  int64
	Selects []SelectRecord
	// per-querier close counts, to detect double close
	DoubleClose int64
	OpenNow     int64
}

func NewMemStorage(series []SeriesData) *MemStorage {
	return &MemStorage{Series: series}
}

func (m *MemStorage) SetHook(h HookFn) { m.hook = h }
func (m *MemStorage) Events() int64    { return atomic.LoadInt64(&m.counter) }

func (m *MemStorage) ev(kind string, info any) Action {
	n := atomic.AddInt64(&m.counter, 1)
	if m.hook == nil {
		return Action{}
	}
	a := m.hook(kind, n, info)
	if a.Panic != nil {
		panic(a.Panic)
	}
	return a
}

var lastQMu sync.Mutex
var lastQCtx context.Context

func lastQuerierCtxDone() <-chan struct{} {
	lastQMu.Lock()
	defer lastQMu.Unlock()
	if lastQCtx != nil {
		return lastQCtx.Done()
	}
	return nil
}

func (m *MemStorage) Querier(ctx context.Context, mint, maxt int64) (storage.Querier, error) {
	lastQMu.Lock()
	lastQCtx = ctx
	lastQMu.Unlock()
	if a := m.ev(EvQuerier, [2]int64{mint, maxt}); a.Err != nil {
		return nil, a.Err
	}
	m.mu.Lock()
	m.Opens++
	m.OpenNow++
	m.mu.Unlock()
	return &memQuerier{m: m, mint: mint, maxt: maxt, ctx: ctx}, nil
}

type memQuerier struct {
	m          *MemStorage
	mint, maxt int64
	ctx        context.Context
	closed     int32
}

func (q *memQuerier) LabelValues(string, ...*labels.Matcher) ([]string, storage.Warnings, error) {
	return nil, nil, nil
}
func (q *memQuerier) LabelNames(...*labels.Matcher) ([]string, storage.Warnings, error) {
	return nil, nil, nil
}
func (q *memQuerier) Close() error {
	q.m.mu.Lock()
	q.m.Closes++
	q.m.OpenNow--
	if atomic.AddInt32(&q.closed, 1) > 1 {
		q.m.DoubleClose++
	}
	q.m.mu.Unlock()
	q.m.ev(EvClose, nil)
	return nil
}

func matchAll(ms []*labels.Matcher, l labels.Labels) bool {
	for _, mt := range ms {
		if !mt.Matches(l.Get(mt.Name)) {
			return false
		}
	}
	return true
}

func (q *memQuerier) Select(sortSeries bool, hints *storage.SelectHints, matchers ...*labels.Matcher) storage.SeriesSet {
	rec := SelectRecord{Mint: q.mint, Maxt: q.maxt, Sorted: sortSeries}
	if hints != nil {
		rec.Hints = *hints
		rec.Hints.Grouping = append([]string(nil), hints.Grouping...)
	}
	for _, mt := range matchers {
		rec.Matchers = append(rec.Matchers, mt.String())
	}
	q.m.mu.Lock()
	q.m.Selects = append(q.m.Selects, rec)
	selIdx := len(q.m.Selects) - 1
	q.m.mu.Unlock()
	a := q.m.ev(EvSelect, rec)
	if a.Err != nil {
		return &memSet{m: q.m, idx: -1, err: a.Err}
	}
	var out []*memSeries
	for i := range q.m.Series {
		sd := &q.m.Series[i]
		if !matchAll(matchers, sd.Labels) {
			continue
		}
		smp := sd.Samples
		if !q.m.NoTrimToQuerier {
			var tr []Sample
			for _, s := range smp {
				if s.T >= q.mint && s.T <= q.maxt {
					tr = append(tr, s)
				}
			}
			smp = tr
		}
		if q.m.TrimToHints && hints != nil {
			var tr []Sample
			for _, s := range smp {
				if s.T >= hints.Start && s.T <= hints.End {
					tr = append(tr, s)
				}
			}
			smp = tr
		}
		out = append(out, &memSeries{m: q.m, lbls: sd.Labels, samples: smp, sel: selIdx})
	}
	if sortSeries {
		sort.SliceStable(out, func(i, j int) bool { return labels.Compare(out[i].lbls, out[j].lbls) < 0 })
	}
	return &memSet{m: q.m, series: out, idx: -1}
}

type memSet struct {
	m      *MemStorage
	series []*memSeries
	idx    int
	err    error
}

func (s *memSet) Next() bool {
	if s.err != nil {
		return false
	}
	if a := s.m.ev(EvSetNext, s.idx+1); a.Err != nil {
		s.err = a.Err
		return false
	}
	s.idx++
	return s.idx < len(s.series)
}
func (s *memSet) At() storage.Series { return s.series[s.idx] }
func (s *memSet) Err() error {
	if a := s.m.ev(EvSetErr, nil); a.Err != nil && s.err == nil {
		s.err = a.Err
	}
	return s.err
}
func (s *memSet) Warnings() storage.Warnings { return nil }

type memSeries struct {
	m       *MemStorage
	lbls    labels.Labels
	samples []Sample
	sel     int // index of the Select call this series was handed out by
}

// ItInfo accompanies iterator events: which Select the iterator belongs to.
type ItInfo struct {
	Sel int
	T   int64
}

func (s *memSeries) Labels() labels.Labels {
	s.m.ev(EvLabels, nil)
	if s.m.ShareLabels {
		return s.lbls
	}
	return s.lbls.Copy()
}
func (s *memSeries) Iterator() chunkenc.Iterator {
	s.m.ev(EvIterator, nil)
	return &memIter{m: s.m, s: s.samples, i: -1, sel: s.sel}
}

type memIter struct {
	m   *MemStorage
	s   []Sample
	i   int
	err error
	sel int
}

func (it *memIter) Next() chunkenc.ValueType {
	if it.err != nil {
		return chunkenc.ValNone
	}
	if a := it.m.ev(EvNext, ItInfo{Sel: it.sel}); a.Err != nil {
		it.err = a.Err
		return chunkenc.ValNone
	}
	it.i++
	if it.i >= len(it.s) {
		it.i = len(it.s)
		return chunkenc.ValNone
	}
	return chunkenc.ValFloat
}
func (it *memIter) Seek(t int64) chunkenc.ValueType {
	if it.err != nil {
		return chunkenc.ValNone
	}
	if a := it.m.ev(EvSeek, ItInfo{Sel: it.sel, T: t}); a.Err != nil {
		it.err = a.Err
		return chunkenc.ValNone
	}
	if it.i < 0 {
		it.i = 0
	}
	if it.i >= len(it.s) {
		return chunkenc.ValNone
	}
	// like listSeriesIterator: no-op when current is already >= t
	if it.s[it.i].T >= t {
		return chunkenc.ValFloat
	}
	it.i += sort.Search(len(it.s)-it.i, func(n int) bool { return it.s[n+it.i].T >= t })
	if it.i >= len(it.s) {
		return chunkenc.ValNone
	}
	return chunkenc.ValFloat
}
func (it *memIter) At() (int64, float64) {
	it.m.ev(EvAt, nil)
	return it.s[it.i].T, it.s[it.i].Val()
}
func (it *memIter) AtHistogram() (int64, *histogram.Histogram)           { return 0, nil }
func (it *memIter) AtFloatHistogram() (int64, *histogram.FloatHistogram) { return 0, nil }
func (it *memIter) AtT() int64                                           { return it.s[it.i].T }
func (it *memIter) Err() error {
	if a := it.m.ev(EvItErr, nil); a.Err != nil && it.err == nil {
		it.err = a.Err
	}
	return it.err
}
