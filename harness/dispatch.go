package main

import (
	"context"
	"encoding/json"
	"fmt"
	"math/rand"
	"os"
	"runtime"
	"time"
)

var extraCmds = map[string]func(in string){}

func runOracle(oracle string, c *Case, lean *LeanDriver) Verdict {
	switch oracle {
	case "opt":
		return optCase(c, lean)
	case "rangeinst":
		return rangeInstCase(c, lean)
	case "procs":
		return procsCase(c, lean)
	case "hints":
		return hintsCase(c, lean)
	case "dist":
		return distCase(c, lean)
	case "fallback":
		return fallbackCase(c, lean)
	case "faults":
		return faultsCase(c, lean)
	case "panic":
		return panicCase(c, lean)
	case "cancel":
		return cancelCase(c, lean)
	case "lifecycle":
		return lifecycleCase(c, lean)
	case "sequence":
		return seqCase(c, lean)
	case "concurrent":
		return concurrentCase(c, lean)
	case "distplan":
		return distPlanCase(c, lean)
	case "kernel":
		if c.Query == "kernel:coalesce" {
			return coalesceKernel(c, lean)
		}
		if c.Query == "kernel:pull" {
			return pullKernel(c, lean)
		}
		if c.Query == "kernel:remote" {
			return remoteKernel(c, lean)
		}
		return kernelCase(c, lean)
	}
	return Verdict{ID: c.ID, Query: c.Query, Oracle: oracle, Skipped: "unknown oracle"}
}

func dispatch(cmd, in, out string, seed int64, n int, prof, oracle string, workers int) bool {
	switch cmd {
	case "worker":
		runWorker(oracle)
		return true
	case "child-panic":
		runChildPanic(n)
		return true
	case "run":
		runSupervisor(oracle, in, out, workers)
		return true
	}
	if f, ok := extraCmds[cmd]; ok {
		f(in)
		return true
	}
	return false
}

func init() {
	extraCmds["one"] = func(in string) {
		f, _ := os.ReadFile(in)
		var c Case
		if err := json.Unmarshal(f, &c); err != nil {
			panic(err)
		}
		if c.Procs > 0 {
			runtime.GOMAXPROCS(c.Procs)
		}
		eng := c.Exec(context.Background(), NewThanos(&c, EngOpts{DisableFallback: true}), NewMemStorage(c.Data()))
		prom := c.Exec(context.Background(), NewProm(&c), NewMemStorage(c.Data()))
		pr := func(name string, r Result) {
			fmt.Println(name, r.Kind, r.Err, r.WF)
			for _, s := range r.Series {
				fmt.Print("  {", s.Labels, "}")
				for _, p := range s.Pts {
					fmt.Printf(" %d:%v", p.T, float64(p.V))
				}
				fmt.Println()
			}
		}
		fmt.Println(c.Query, c.Start, c.End, c.Step, "lb", c.Lookback, c.QLookback, "procs", c.Procs)
		pr("ENGINE", eng)
		pr("PROM", prom)
		fmt.Println("DIFF", Diff(eng, prom))
		if plan, err := c.Preprocess(); err == nil {
			if lean, err := StartLean(); err == nil {
				lines, _ := c.ProtoLines(plan, []string{"spec", "model", "ties"})
				ans, _ := lean.Ask(lines)
				for _, v := range []string{"spec", "model"} {
					r, _ := ParseLeanResult(ans[v])
					pr("LEAN-"+v, r)
				}
				fmt.Println("ties", ans["ties"])
				fmt.Println(lines[len(lines)-5])
				lean.Close()
			}
		}
	}
}

func init() {
	extraCmds["cancelstress"] = func(in string) {
		f, _ := os.ReadFile(in)
		var c Case
		if err := json.Unmarshal(f, &c); err != nil {
			panic(err)
		}
		c.Procs = 2
		kinds, clean := countEvents(&c)
		fmt.Println("events", len(kinds), "clean", clean.Kind, len(clean.Series))
		bad := 0
		for try := 0; try < 3000; try++ {
			k := 1 + try%len(kinds)
			res, hung, _, _, fired := cancelOnce(&c, k, cancelBlock)
			if hung || !fired {
				continue
			}
			if res.Kind != "err" {
				if df := Diff(res, clean); df != "" {
					bad++
					if bad < 4 {
						fmt.Println("PARTIAL SUCCESS at k=", k, df)
					}
				}
			}
		}
		fmt.Println("partial successes:", bad)
	}
}

func init() {
	extraCmds["cancelone"] = func(in string) {
		f, _ := os.ReadFile(in)
		var c Case
		if err := json.Unmarshal(f, &c); err != nil {
			panic(err)
		}
		kinds, _ := countEvents(&c)
		fmt.Println("events", len(kinds))
		for _, mode := range []cancelMode{cancelBlockAll, cancelQueryBlock} {
			for k := 1; k <= len(kinds); k++ {
				res, hung, leak, _, fired := cancelOnce(&c, k, mode)
				if hung {
					fmt.Println("HUNG mode", mode, "k", k, kinds[k-1])
					buf := make([]byte, 1<<20)
					n := runtime.Stack(buf, true)
					fmt.Println(string(buf[:n]))
					return
				}
				_ = res
				_ = leak
				_ = fired
			}
		}
		fmt.Println("no hang")
	}
}

func init() {
	extraCmds["slowsel"] = func(in string) {
		f, _ := os.ReadFile(in)
		var c Case
		if err := json.Unmarshal(f, &c); err != nil {
			panic(err)
		}
		go func() {
			time.Sleep(200 * time.Second)
			buf := make([]byte, 1<<20)
			n := runtime.Stack(buf, true)
			fmt.Fprintf(os.Stderr, "WATCHDOG\n%s\n", buf[:n])
			os.Exit(7)
		}()
		_, clean := countEvents(&c)
		fmt.Println("clean kind", clean.Kind, trunc(clean.Err))
		t0 := time.Now()
		fmt.Println("slowSelectFaults:", slowSelectFaults(&c, clean), time.Since(t0))
		t0 = time.Now()
		fmt.Println("laggingFaults:", laggingFaults(&c, clean, rand.New(rand.NewSource(1)), false), time.Since(t0))
		t0 = time.Now()
		kinds, _ := countEvents(&c)
		fmt.Println("events:", len(kinds), time.Since(t0))
	}
}

func init() {
	extraCmds["repeat"] = func(in string) {
		f, _ := os.ReadFile(in)
		var c Case
		if err := json.Unmarshal(f, &c); err != nil {
			panic(err)
		}
		if c.Procs > 0 {
			runtime.GOMAXPROCS(c.Procs)
		}
		var first Result
		diffs := 0
		for i := 0; i < 60; i++ {
			r := c.Exec(context.Background(), NewThanos(&c, EngOpts{DisableFallback: true}), NewMemStorage(c.Data()))
			if i == 0 {
				first = r
				continue
			}
			if d := Diff(r, first); d != "" {
				diffs++
				if diffs <= 2 {
					fmt.Println("run", i, "differs:", d)
					for _, s := range r.Series {
						fmt.Println("   now  ", s.Labels, s.Pts)
					}
					for _, s := range first.Series {
						fmt.Println("   first", s.Labels, s.Pts)
					}
				}
			}
		}
		fmt.Println("differing runs:", diffs)
	}
}
