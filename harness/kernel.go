//go:build verif

package main

// Kernel-level correspondence (tier T2): the engine's scan kernels, driven directly over
// Prometheus' real memoized / buffered iterators, against the Lean iterator model and the
// declarative selection (the two are proven equal in Proofs/IterProof.lean for sorted samples
// and non-decreasing reference times).

import (
	"fmt"
	"math"
	"strings"

	"github.com/prometheus/prometheus/model/value"
	"github.com/prometheus/prometheus/promql"
	"github.com/prometheus/prometheus/storage"

	"github.com/prometheus/prometheus/promql/parser"

	"github.com/thanos-community/promql-engine/execution/aggregate"
	"github.com/thanos-community/promql-engine/execution/binary"
	"github.com/thanos-community/promql-engine/execution/model"
	"github.com/thanos-community/promql-engine/execution/scan"
)

var tableOps = map[string]parser.ItemType{
	"+": parser.ADD, "-": parser.SUB, "*": parser.MUL, "/": parser.DIV,
	"==": parser.EQLC, "!=": parser.NEQ, ">": parser.GTR, "<": parser.LSS, ">=": parser.GTE, "<=": parser.LTE,
}

func tableCards() []parser.VectorMatchCardinality {
	return []parser.VectorMatchCardinality{parser.CardOneToOne, parser.CardManyToOne, parser.CardOneToMany}
}

// tableKernel drives binary.table (through the verif export) over the steps of the case and
// compares with the Lean model of the tagged table and, for strictly increasing timestamps,
// with the fresh-table-per-step model the engine model uses.
func tableKernel(c *Case, lean *LeanDriver) Verdict {
	v := Verdict{ID: c.ID, Query: c.Query, Oracle: "kernel", Native: true}
	tc := c.KTable
	if tc == nil {
		v.Skipped = "no table case"
		return v
	}
	high := make([]*uint64, len(tc.High))
	for i, h := range tc.High {
		if h >= 0 {
			x := uint64(h)
			high[i] = &x
		}
	}
	low := make([][]uint64, len(tc.Low))
	for i, l := range tc.Low {
		for _, o := range l {
			low[i] = append(low[i], uint64(o))
		}
	}
	tbl, err := binary.VerifNewTable(tableCards()[tc.Card], tableOps[tc.Op], tc.N, high, low)
	if err != nil {
		v.Other = "table: " + err.Error()
		return v
	}
	mk := func(t int64, xs [][2]int64) model.StepVector {
		sv := model.StepVector{T: t}
		for _, x := range xs {
			sv.SampleIDs = append(sv.SampleIDs, uint64(x[0]))
			sv.Samples = append(sv.Samples, float64(x[1]))
		}
		return sv
	}
	var real []string
	mono := true
	for i, st := range tc.Steps {
		if i > 0 && st.T <= tc.Steps[i-1].T {
			mono = false
		}
		out, bad := tbl.Exec(mk(st.T, st.Lhs), mk(st.T, st.Rhs), tc.Bool)
		if bad {
			real = append(real, "err")
			break
		}
		var ps []string
		for k := range out.SampleIDs {
			ps = append(ps, fmt.Sprintf("%d:%s", out.SampleIDs[k], kbits(out.Samples[k])))
			v.NonTriv = true
		}
		real = append(real, strings.Join(ps, "+"))
	}
	// protocol
	enc := func(xs [][2]int64) string {
		p := make([]string, len(xs))
		for i, x := range xs {
			p[i] = fmt.Sprintf("%d:%s", x[0], bits(float64(x[1])))
		}
		return strings.Join(p, ",")
	}
	var steps []string
	for _, st := range tc.Steps {
		steps = append(steps, fmt.Sprintf("%d/%s/%s", st.T, enc(st.Lhs), enc(st.Rhs)))
	}
	hs := make([]string, len(tc.High))
	for i, h := range tc.High {
		hs[i] = fmt.Sprint(h)
	}
	ls := make([]string, len(tc.Low))
	for i, l := range tc.Low {
		q := make([]string, len(l))
		for k, o := range l {
			q[k] = fmt.Sprint(o)
		}
		ls[i] = strings.Join(q, ".")
	}
	b := 0
	if tc.Bool {
		b = 1
	}
	line := fmt.Sprintf("kernel table %d %s %d %d h%s l%s %s", tc.Card, encS(tc.Op), b, tc.N,
		strings.Join(hs, ","), strings.Join(ls, ";"), strings.Join(steps, "#"))
	ans, aerr := lean.Ask([]string{"case " + c.ID, line, "end"})
	if aerr != nil {
		v.Crash = "lean: " + aerr.Error()
		return v
	}
	var tagS, freshS string
	for _, f := range strings.Fields(ans["kernel"]) {
		if strings.HasPrefix(f, "tag=") {
			tagS = f[4:]
		}
		if strings.HasPrefix(f, "fresh=") {
			freshS = f[6:]
		}
	}
	got := strings.Join(real, "#")
	if got != tagS {
		v.EngVsModel = "table vs tagged-table model: " + got + " vs " + tagS
	}
	if mono {
		if tagS != freshS {
			v.ModelVsSpec = "tagged-table model vs fresh table per step: " + tagS + " vs " + freshS
		}
		if got != freshS {
			v.EngVsProm = "table vs fresh table per step: " + got + " vs " + freshS
		}
	}
	v.Steps = len(tc.Steps)
	v.NumSeries = tc.N
	v.Features = []string{c.Query, fmt.Sprintf("card:%d", tc.Card)}
	if !mono {
		v.Features = append(v.Features, "nonmono")
	}
	return v
}

var accOps = map[string]parser.ItemType{
	"sum": parser.SUM, "max": parser.MAX, "min": parser.MIN, "count": parser.COUNT, "avg": parser.AVG,
	"group": parser.GROUP, "stddev": parser.STDDEV, "stdvar": parser.STDVAR, "quantile": parser.QUANTILE,
}

// accKernel drives one real accumulator through Reset/Add/HasValue/Value over several steps - as
// the table of a batch position does across batches - and compares every step's output with the
// Lean model of the reused accumulator and with the per-step reduction.
func accKernel(c *Case, lean *LeanDriver) Verdict {
	v := Verdict{ID: c.ID, Query: c.Query, Oracle: "kernel", Native: true}
	ac := c.KAcc
	if ac == nil {
		v.Skipped = "no accumulator case"
		return v
	}
	acc, err := aggregate.VerifNewAccumulator(accOps[ac.Op])
	if err != nil {
		v.Other = "accumulator: " + err.Error()
		return v
	}
	var real, steps []string
	for _, st := range ac.Steps {
		acc.Reset(float64(st.Arg))
		vs := make([]string, len(st.Vals))
		for i, x := range st.Vals {
			acc.Add(float64(x))
			vs[i] = bits(float64(x))
		}
		if acc.HasValue() {
			real = append(real, kbits(acc.Value()))
			v.NonTriv = true
		} else {
			real = append(real, "-")
		}
		steps = append(steps, bits(float64(st.Arg))+"/"+strings.Join(vs, ","))
	}
	ans, aerr := lean.Ask([]string{"case " + c.ID, "kernel acc " + encS(ac.Op) + " " + strings.Join(steps, "#"), "end"})
	if aerr != nil {
		v.Crash = "lean: " + aerr.Error()
		return v
	}
	var accS, freshS string
	for _, f := range strings.Fields(ans["kernel"]) {
		if strings.HasPrefix(f, "acc=") {
			accS = f[4:]
		}
		if strings.HasPrefix(f, "fresh=") {
			freshS = f[6:]
		}
	}
	got := strings.Join(real, "#")
	if !accSame(got, accS) {
		v.EngVsModel = "accumulator vs reused-accumulator model: " + got + " vs " + accS
	}
	if !accSame(accS, freshS) {
		v.ModelVsSpec = "reused-accumulator model vs per-step reduction: " + accS + " vs " + freshS
	}
	if !accSame(got, freshS) {
		v.EngVsProm = "accumulator vs per-step reduction: " + got + " vs " + freshS
	}
	v.Steps = len(ac.Steps)
	v.Features = []string{c.Query, "acc:" + ac.Op}
	return v
}

// accSame compares two '#'-separated lists of hex doubles ("-" = no value) with the value
// tolerance of the result comparison.
func accSame(a, b string) bool {
	x, y := strings.Split(a, "#"), strings.Split(b, "#")
	if len(x) != len(y) {
		return false
	}
	for i := range x {
		if x[i] == y[i] {
			continue
		}
		if x[i] == "-" || y[i] == "-" {
			return false
		}
		var u, w uint64
		fmt.Sscanf(x[i], "%x", &u)
		fmt.Sscanf(y[i], "%x", &w)
		if !floatEq(math.Float64frombits(u), math.Float64frombits(w)) {
			return false
		}
	}
	return true
}

func (g *Gen) accCase(c *Case) {
	ac := &AccCase{Op: g.pick("sum", "max", "min", "count", "avg", "group", "stddev", "stdvar", "quantile")}
	val := func() F {
		switch {
		case g.chance(0.06):
			return F(math.NaN())
		case g.chance(0.04):
			return F(math.Inf(1 - 2*g.r.Intn(2)))
		default:
			return F(float64(g.r.Intn(40) - 20))
		}
	}
	for s := 1 + g.r.Intn(6); s > 0; s-- {
		st := AccStep{Arg: F(g.pickF(0, 0.5, 0.9, 1, -1, 2, math.NaN(), 0.25))}
		for k := g.pickI(0, 0, 1, 2, 3, 5, 9); k > 0; k-- {
			st.Vals = append(st.Vals, val())
		}
		ac.Steps = append(ac.Steps, st)
	}
	c.KAcc = ac
}

func (g *Gen) tableCase(c *Case) {
	tc := &TableCase{Card: g.r.Intn(3), Op: g.pick("+", "-", "*", "==", "!=", ">", "<", ">=", "<="), Bool: g.chance(0.3)}
	tc.N = 1 + g.r.Intn(5)
	nh := 1 + g.r.Intn(5)
	nl := 1 + g.r.Intn(4)
	// the engine's join gives every high-cardinality series its own output; also exercise
	// shared outputs, which is what duplicate detection is for
	inj := g.chance(0.75)
	if inj && tc.N < nh {
		tc.N = nh
	}
	perm := g.r.Perm(tc.N)
	for i := 0; i < nh; i++ {
		switch {
		case g.chance(0.15):
			tc.High = append(tc.High, -1)
		case inj:
			tc.High = append(tc.High, perm[i])
		default:
			tc.High = append(tc.High, g.r.Intn(tc.N))
		}
	}
	for i := 0; i < nl; i++ {
		var l []int
		for k := g.r.Intn(3); k > 0; k-- {
			l = append(l, g.r.Intn(tc.N))
		}
		tc.Low = append(tc.Low, l)
	}
	nlhs, nrhs := nh, nl
	if tc.Card == 2 {
		nlhs, nrhs = nl, nh
	}
	t := g.pickI(-1, 0, 1000, 1_700_000_000_000)
	for s := 1 + g.r.Intn(5); s > 0; s-- {
		st := TableStep{T: t}
		// a step vector holds every sample ID at most once, in any order
		for _, id := range g.r.Perm(nlhs) {
			if g.chance(0.75) {
				st.Lhs = append(st.Lhs, [2]int64{int64(id), int64(g.r.Intn(7) - 3)})
			}
		}
		for _, id := range g.r.Perm(nrhs) {
			if g.chance(0.75) {
				st.Rhs = append(st.Rhs, [2]int64{int64(id), int64(g.r.Intn(7) - 3)})
			}
		}
		tc.Steps = append(tc.Steps, st)
		if g.chance(0.12) {
			t -= g.pickI(0, 0, 1000) // a repeated or earlier timestamp: outside the theorem
		} else {
			t += g.pickI(1, 1000, 60000)
		}
	}
	c.KTable = tc
}

func seriesLine(s SeriesData) string {
	var sb strings.Builder
	sb.WriteString("series")
	for _, l := range s.Labels {
		sb.WriteString(" " + l.Name + "=" + encS(l.Value))
	}
	sb.WriteString(" |")
	for _, p := range s.Samples {
		if p.Stale {
			fmt.Fprintf(&sb, " %d:stale", p.T)
		} else {
			fmt.Fprintf(&sb, " %d:%s", p.T, bits(p.V))
		}
	}
	return sb.String()
}

// kbits prints a value with every NaN payload collapsed (the driver's Float has one NaN)
func kbits(v float64) string {
	if math.IsNaN(v) {
		return "7ff8000000000000"
	}
	return bits(v)
}

func refsCSV(r []int64) string {
	p := make([]string, len(r))
	for i, x := range r {
		p[i] = fmt.Sprint(x)
	}
	return strings.Join(p, ",")
}

func kernelCase(c *Case, lean *LeanDriver) Verdict {
	if c.Query == "kernel:table" {
		return tableKernel(c, lean)
	}
	if c.Query == "kernel:acc" {
		return accKernel(c, lean)
	}
	if c.Query == "kernel:slices" {
		return sliceKernel(c, lean)
	}
	v := Verdict{ID: c.ID, Query: c.Query, Oracle: "kernel", Native: true}
	data := c.Data()
	if len(data) == 0 || len(c.Refs) == 0 {
		v.Skipped = "empty kernel case"
		return v
	}
	// the theorems' hypotheses: non-decreasing reference times for selectPoint, strictly
	// increasing window ends for selectPoints (the engine's step is positive; asking
	// selectPoints for the same window end twice repeats the sample at the end - in the
	// model as in the code - and the matrix selector never does that)
	mono := true
	for i := 1; i < len(c.Refs); i++ {
		if c.Refs[i] < c.Refs[i-1] || (c.Query == "kernel:selectpoints" && c.Refs[i] == c.Refs[i-1]) {
			mono = false
		}
	}
	st := NewMemStorage(data)
	ser := &memSeries{m: st, lbls: data[0].Labels, samples: data[0].Samples}
	var real []string
	switch c.Query {
	case "kernel:selectpoint":
		it := storage.NewMemoizedIterator(ser.Iterator(), c.Lookback)
		for _, r := range c.Refs {
			// refs are ts - offset; split them so both parameters are exercised
			off := c.KOffset
			t, val, ok, err := scan.VerifSelectPoint(it, r+off, c.Lookback, off)
			if err != nil {
				v.Other = "selectPoint error: " + err.Error()
				return v
			}
			if !ok {
				real = append(real, "-")
			} else {
				if value.IsStaleNaN(val) {
					v.Other = "selectPoint returned a staleness marker"
					return v
				}
				real = append(real, fmt.Sprintf("%d:%s", t, kbits(val)))
				v.NonTriv = true
			}
		}
		lines := []string{"case " + c.ID, seriesLine(data[0]),
			fmt.Sprintf("kernel selectpoint %d %s", c.Lookback, refsCSV(c.Refs)), "end"}
		ans, err := lean.Ask(lines)
		if err != nil {
			v.Crash = "lean: " + err.Error()
			return v
		}
		k := ans["kernel"]
		var itS, spS string
		for _, f := range strings.Fields(k) {
			if strings.HasPrefix(f, "it=") {
				itS = f[3:]
			}
			if strings.HasPrefix(f, "spec=") {
				spS = f[5:]
			}
		}
		got := strings.Join(real, ",")
		if got != itS {
			v.EngVsModel = firstDiff("selectPoint vs iterator model", c.Refs, real, strings.Split(itS, ","))
		}
		if mono {
			if itS != spS {
				v.ModelVsSpec = firstDiff("iterator model vs declarative selection", c.Refs, strings.Split(itS, ","), strings.Split(spS, ","))
			}
			if got != spS {
				v.EngVsProm = firstDiff("selectPoint vs declarative selection", c.Refs, real, strings.Split(spS, ","))
			}
		}
	case "kernel:selectpoints":
		it := storage.NewBufferIterator(ser.Iterator(), c.KRange)
		var out []promql.Point
		for _, r := range c.Refs {
			var err error
			out, err = scan.VerifSelectPoints(it, r-c.KRange, r, out)
			if err != nil {
				v.Other = "selectPoints error: " + err.Error()
				return v
			}
			var ps []string
			for _, p := range out {
				if value.IsStaleNaN(p.V) {
					v.Other = "selectPoints returned a staleness marker"
					return v
				}
				ps = append(ps, fmt.Sprintf("%d:%s", p.T, kbits(p.V)))
				v.NonTriv = true
			}
			real = append(real, strings.Join(ps, "+"))
		}
		lines := []string{"case " + c.ID, seriesLine(data[0]),
			fmt.Sprintf("kernel selectpoints %d %s", c.KRange, refsCSV(c.Refs)), "end"}
		ans, err := lean.Ask(lines)
		if err != nil {
			v.Crash = "lean: " + err.Error()
			return v
		}
		k := ans["kernel"]
		var itS, spS string
		for _, f := range strings.Fields(k) {
			if strings.HasPrefix(f, "it=") {
				itS = f[3:]
			}
			if strings.HasPrefix(f, "spec=") {
				spS = f[5:]
			}
		}
		got := strings.Join(real, ",")
		if got != itS {
			v.EngVsModel = firstDiff("selectPoints vs iterator model", c.Refs, real, strings.Split(itS, ","))
		}
		if mono {
			if itS != spS {
				v.ModelVsSpec = firstDiff("iterator model vs declarative range selection", c.Refs, strings.Split(itS, ","), strings.Split(spS, ","))
			}
			if got != spS {
				v.EngVsProm = firstDiff("selectPoints vs declarative range selection", c.Refs, real, strings.Split(spS, ","))
			}
		}
	case "kernel:matrixscan":
		// as matrixSelector.Next drives it: selectPoints into the reused slice, then ReduceDelta
		it := storage.NewBufferIterator(ser.Iterator(), c.KRange)
		sr := c.KRange
		if sr > c.KStep {
			sr = c.KStep
		}
		var out []promql.Point
		for _, r := range c.Refs {
			var err error
			out, err = scan.VerifSelectPoints(it, r-c.KRange, r, out)
			if err != nil {
				v.Other = "selectPoints error: " + err.Error()
				return v
			}
			var ps []string
			for _, p := range out {
				ps = append(ps, fmt.Sprintf("%d:%s", p.T, kbits(p.V)))
				v.NonTriv = true
			}
			real = append(real, strings.Join(ps, "+"))
			it.ReduceDelta(sr)
		}
		lines := []string{"case " + c.ID, seriesLine(data[0]),
			fmt.Sprintf("kernel matrixscan %d %d %d %d", c.KRange, c.KStep, c.Refs[0], len(c.Refs)), "end"}
		ans, err := lean.Ask(lines)
		if err != nil {
			v.Crash = "lean: " + err.Error()
			return v
		}
		var itS, spS string
		for _, f := range strings.Fields(ans["kernel"]) {
			if strings.HasPrefix(f, "it=") {
				itS = f[3:]
			}
			if strings.HasPrefix(f, "spec=") {
				spS = f[5:]
			}
		}
		got := strings.Join(real, ",")
		if got != itS {
			v.EngVsModel = firstDiff("matrix scan vs iterator model with ReduceDelta", c.Refs, real, strings.Split(itS, ","))
		}
		if itS != spS {
			v.ModelVsSpec = firstDiff("iterator model vs declarative range selection", c.Refs, strings.Split(itS, ","), strings.Split(spS, ","))
		}
		if got != spS {
			v.EngVsProm = firstDiff("matrix scan vs declarative range selection", c.Refs, real, strings.Split(spS, ","))
		}
	default:
		v.Skipped = "unknown kernel"
		return v
	}
	v.Steps = len(c.Refs)
	v.NumSeries = 1
	v.Features = []string{c.Query}
	if !mono {
		v.Features = append(v.Features, "nonmono")
	}
	return v
}

func firstDiff(what string, refs []int64, a, b []string) string {
	if len(a) != len(b) {
		return fmt.Sprintf("%s: %d vs %d answers", what, len(a), len(b))
	}
	for i := range a {
		if a[i] != b[i] {
			return fmt.Sprintf("%s: at ref #%d (%d): %s vs %s", what, i, refs[i], a[i], b[i])
		}
	}
	return ""
}

// kernelGen builds one kernel case: a single series with irregular spacing, gaps, staleness
// markers, and a sequence of reference times.
func (g *Gen) kernelCase(i int) *Case {
	c := &Case{ID: fmt.Sprintf("kernel-%d", i), Profile: "kernel"}
	switch i % 4 {
	case 0:
		c.Query = "kernel:selectpoint"
	case 1:
		c.Query = "kernel:selectpoints"
	case 2:
		c.Query = "kernel:acc"
		g.accCase(c)
		return c
	default:
		c.Query = "kernel:table"
		g.tableCase(c)
		return c
	}
	n := int(g.pickI(0, 1, 2, 3, 5, 8, 13, 30, 60))
	t := int64(g.pickI(0, 1000, 1_700_000_000_000, -5000))
	var ss []SampleJ
	for k := 0; k < n; k++ {
		t += g.pickI(1, 1, 2, 10, 100, 1000, 1000, 5000, 15000, 60000, 300000, 301000, 900000)
		var sj SampleJ
		sj.T = t
		switch {
		case g.chance(0.12):
			sj.Stale = true
		case g.chance(0.05):
			sj.V = F(math.NaN())
		default:
			sj.V = F(float64(g.r.Intn(200) - 100))
		}
		ss = append(ss, sj)
	}
	c.Series = []SeriesJ{{Labels: [][2]string{{"__name__", "m"}}, Samples: ss}}
	c.Lookback = g.pickI(0, 1, 10, 1000, 5000, 60000, 300000, 300000)
	c.KRange = g.pickI(0, 1, 10, 1000, 5000, 60000, 300000, 600000)
	c.KOffset = g.pickI(0, 0, 1000, -1000, 60000, 3600000)
	first := int64(0)
	last := int64(0)
	if n > 0 {
		first, last = ss[0].T, ss[n-1].T
	}
	m := int(g.pickI(1, 2, 3, 10, 25, 60))
	step := g.pickI(0, 1, 7, 1000, 15000, 30000, 60000, 300000, 1000000)
	r := first - g.pickI(0, 1, 1000, 300000, 300001, 700000)
	if g.chance(0.3) && n > 0 {
		r = ss[g.r.Intn(n)].T + g.pickI(-1, 0, 1, 0)
	}
	_ = last
	for k := 0; k < m; k++ {
		c.Refs = append(c.Refs, r)
		if g.chance(0.25) && n > 0 {
			// land exactly on (or one ms around) a sample or a window boundary
			s := ss[g.r.Intn(n)].T + g.pickI(-1, 0, 1, 0) + g.pickI(0, 0, c.Lookback, c.KRange)
			if s >= r {
				r = s
				continue
			}
		}
		r += step
	}
	if c.Query == "kernel:selectpoints" && g.chance(0.5) {
		// the operator's own loop: an arithmetic grid of window ends and ReduceDelta after each
		c.Query = "kernel:matrixscan"
		c.KStep = g.pickI(1, 7, 1000, 10000, 15000, 30000, 60000, 300000, c.KRange, c.KRange+1, c.KRange/2+1)
		if c.KStep <= 0 {
			c.KStep = 1000
		}
		r0 := c.Refs[0]
		nn := len(c.Refs)
		if n > 0 && g.chance(0.6) {
			// put a sample exactly on the left (or right) edge of some window of the grid
			j := int64(g.r.Intn(nn))
			r0 = ss[g.r.Intn(n)].T + g.pickI(c.KRange, c.KRange, 0) - j*c.KStep
		}
		c.Refs = c.Refs[:0]
		for k := 0; k < nn; k++ {
			c.Refs = append(c.Refs, r0+int64(k)*c.KStep)
		}
		return c
	}
	if g.chance(0.1) && len(c.Refs) > 2 {
		// outside the theorem's hypothesis: the model alone must still follow the code
		j := 1 + g.r.Intn(len(c.Refs)-1)
		c.Refs[j] = c.Refs[j-1] - g.pickI(1, 1000, 60000, 300000)
	}
	return c
}
