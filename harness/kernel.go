//go:build verif

package main

// Kernel-level correspondence (tier T2): the engine's scan kernels, driven directly over
// Prometheus' real memoized / buffered iterators, against the Lean iterator model and the
// declarative selection (the two are proven equal in Proofs/IterProof.lean for sorted samples
// and non-decreasing reference times).

import (
	"fmt"
	"math"
	"strings"

	"github.com/prometheus/prometheus/model/value"
	"github.com/prometheus/prometheus/promql"
	"github.com/prometheus/prometheus/storage"

	"github.com/thanos-community/promql-engine/execution/scan"
)

func seriesLine(s SeriesData) string {
	var sb strings.Builder
	sb.WriteString("series")
	for _, l := range s.Labels {
		sb.WriteString(" " + l.Name + "=" + encS(l.Value))
	}
	sb.WriteString(" |")
	for _, p := range s.Samples {
		if p.Stale {
			fmt.Fprintf(&sb, " %d:stale", p.T)
		} else {
			fmt.Fprintf(&sb, " %d:%s", p.T, bits(p.V))
		}
	}
	return sb.String()
}

// kbits prints a value with every NaN payload collapsed (the driver's Float has one NaN)
func kbits(v float64) string {
	if math.IsNaN(v) {
		return "7ff8000000000000"
	}
	return bits(v)
}

func refsCSV(r []int64) string {
	p := make([]string, len(r))
	for i, x := range r {
		p[i] = fmt.Sprint(x)
	}
	return strings.Join(p, ",")
}

func kernelCase(c *Case, lean *LeanDriver) Verdict {
	v := Verdict{ID: c.ID, Query: c.Query, Oracle: "kernel", Native: true}
	data := c.Data()
	if len(data) == 0 || len(c.Refs) == 0 {
		v.Skipped = "empty kernel case"
		return v
	}
	// the theorems' hypotheses: non-decreasing reference times for selectPoint, strictly
	// increasing window ends for selectPoints (the engine's step is positive; asking
	// selectPoints for the same window end twice repeats the sample at the end - in the
	// model as in the code - and the matrix selector never does that)
	mono := true
	for i := 1; i < len(c.Refs); i++ {
		if c.Refs[i] < c.Refs[i-1] || (c.Query == "kernel:selectpoints" && c.Refs[i] == c.Refs[i-1]) {
			mono = false
		}
	}
	st := NewMemStorage(data)
	ser := &memSeries{m: st, lbls: data[0].Labels, samples: data[0].Samples}
	var real []string
	switch c.Query {
	case "kernel:selectpoint":
		it := storage.NewMemoizedIterator(ser.Iterator(), c.Lookback)
		for _, r := range c.Refs {
			// refs are ts - offset; split them so both parameters are exercised
			off := c.KOffset
			t, val, ok, err := scan.VerifSelectPoint(it, r+off, c.Lookback, off)
			if err != nil {
				v.Other = "selectPoint error: " + err.Error()
				return v
			}
			if !ok {
				real = append(real, "-")
			} else {
				if value.IsStaleNaN(val) {
					v.Other = "selectPoint returned a staleness marker"
					return v
				}
				real = append(real, fmt.Sprintf("%d:%s", t, kbits(val)))
				v.NonTriv = true
			}
		}
		lines := []string{"case " + c.ID, seriesLine(data[0]),
			fmt.Sprintf("kernel selectpoint %d %s", c.Lookback, refsCSV(c.Refs)), "end"}
		ans, err := lean.Ask(lines)
		if err != nil {
			v.Crash = "lean: " + err.Error()
			return v
		}
		k := ans["kernel"]
		var itS, spS string
		for _, f := range strings.Fields(k) {
			if strings.HasPrefix(f, "it=") {
				itS = f[3:]
			}
			if strings.HasPrefix(f, "spec=") {
				spS = f[5:]
			}
		}
		got := strings.Join(real, ",")
		if got != itS {
			v.EngVsModel = firstDiff("selectPoint vs iterator model", c.Refs, real, strings.Split(itS, ","))
		}
		if mono {
			if itS != spS {
				v.ModelVsSpec = firstDiff("iterator model vs declarative selection", c.Refs, strings.Split(itS, ","), strings.Split(spS, ","))
			}
			if got != spS {
				v.EngVsProm = firstDiff("selectPoint vs declarative selection", c.Refs, real, strings.Split(spS, ","))
			}
		}
	case "kernel:selectpoints":
		it := storage.NewBufferIterator(ser.Iterator(), c.KRange)
		var out []promql.Point
		for _, r := range c.Refs {
			var err error
			out, err = scan.VerifSelectPoints(it, r-c.KRange, r, out)
			if err != nil {
				v.Other = "selectPoints error: " + err.Error()
				return v
			}
			var ps []string
			for _, p := range out {
				if value.IsStaleNaN(p.V) {
					v.Other = "selectPoints returned a staleness marker"
					return v
				}
				ps = append(ps, fmt.Sprintf("%d:%s", p.T, kbits(p.V)))
				v.NonTriv = true
			}
			real = append(real, strings.Join(ps, "+"))
		}
		lines := []string{"case " + c.ID, seriesLine(data[0]),
			fmt.Sprintf("kernel selectpoints %d %s", c.KRange, refsCSV(c.Refs)), "end"}
		ans, err := lean.Ask(lines)
		if err != nil {
			v.Crash = "lean: " + err.Error()
			return v
		}
		k := ans["kernel"]
		var itS, spS string
		for _, f := range strings.Fields(k) {
			if strings.HasPrefix(f, "it=") {
				itS = f[3:]
			}
			if strings.HasPrefix(f, "spec=") {
				spS = f[5:]
			}
		}
		got := strings.Join(real, ",")
		if got != itS {
			v.EngVsModel = firstDiff("selectPoints vs iterator model", c.Refs, real, strings.Split(itS, ","))
		}
		if mono {
			if itS != spS {
				v.ModelVsSpec = firstDiff("iterator model vs declarative range selection", c.Refs, strings.Split(itS, ","), strings.Split(spS, ","))
			}
			if got != spS {
				v.EngVsProm = firstDiff("selectPoints vs declarative range selection", c.Refs, real, strings.Split(spS, ","))
			}
		}
	default:
		v.Skipped = "unknown kernel"
		return v
	}
	v.Steps = len(c.Refs)
	v.NumSeries = 1
	v.Features = []string{c.Query}
	if !mono {
		v.Features = append(v.Features, "nonmono")
	}
	return v
}

func firstDiff(what string, refs []int64, a, b []string) string {
	if len(a) != len(b) {
		return fmt.Sprintf("%s: %d vs %d answers", what, len(a), len(b))
	}
	for i := range a {
		if a[i] != b[i] {
			return fmt.Sprintf("%s: at ref #%d (%d): %s vs %s", what, i, refs[i], a[i], b[i])
		}
	}
	return ""
}

// kernelGen builds one kernel case: a single series with irregular spacing, gaps, staleness
// markers, and a sequence of reference times.
func (g *Gen) kernelCase(i int) *Case {
	c := &Case{ID: fmt.Sprintf("kernel-%d", i), Profile: "kernel"}
	if i%2 == 0 {
		c.Query = "kernel:selectpoint"
	} else {
		c.Query = "kernel:selectpoints"
	}
	n := int(g.pickI(0, 1, 2, 3, 5, 8, 13, 30, 60))
	t := int64(g.pickI(0, 1000, 1_700_000_000_000, -5000))
	var ss []SampleJ
	for k := 0; k < n; k++ {
		t += g.pickI(1, 1, 2, 10, 100, 1000, 1000, 5000, 15000, 60000, 300000, 301000, 900000)
		var sj SampleJ
		sj.T = t
		switch {
		case g.chance(0.12):
			sj.Stale = true
		case g.chance(0.05):
			sj.V = F(math.NaN())
		default:
			sj.V = F(float64(g.r.Intn(200) - 100))
		}
		ss = append(ss, sj)
	}
	c.Series = []SeriesJ{{Labels: [][2]string{{"__name__", "m"}}, Samples: ss}}
	c.Lookback = g.pickI(0, 1, 10, 1000, 5000, 60000, 300000, 300000)
	c.KRange = g.pickI(0, 1, 10, 1000, 5000, 60000, 300000, 600000)
	c.KOffset = g.pickI(0, 0, 1000, -1000, 60000, 3600000)
	first := int64(0)
	last := int64(0)
	if n > 0 {
		first, last = ss[0].T, ss[n-1].T
	}
	m := int(g.pickI(1, 2, 3, 10, 25, 60))
	step := g.pickI(0, 1, 7, 1000, 15000, 30000, 60000, 300000, 1000000)
	r := first - g.pickI(0, 1, 1000, 300000, 300001, 700000)
	if g.chance(0.3) && n > 0 {
		r = ss[g.r.Intn(n)].T + g.pickI(-1, 0, 1, 0)
	}
	_ = last
	for k := 0; k < m; k++ {
		c.Refs = append(c.Refs, r)
		if g.chance(0.25) && n > 0 {
			// land exactly on (or one ms around) a sample or a window boundary
			s := ss[g.r.Intn(n)].T + g.pickI(-1, 0, 1, 0) + g.pickI(0, 0, c.Lookback, c.KRange)
			if s >= r {
				r = s
				continue
			}
		}
		r += step
	}
	if g.chance(0.1) && len(c.Refs) > 2 {
		// outside the theorem's hypothesis: the model alone must still follow the code
		j := 1 + g.r.Intn(len(c.Refs)-1)
		c.Refs[j] = c.Refs[j-1] - g.pickI(1, 1000, 60000, 300000)
	}
	return c
}
