package main

// Kernel-level correspondence for the coalesce operator: the real exchange.NewCoalesce over fake
// children that deliver prescribed batches after a small random delay (so that the order in which
// their goroutines take the lock varies), against the Lean model of coalesceOperator.Next
// (Coalesce.lean). Step vectors are compared with their samples sorted by ID: the model's order of
// arrival is a parameter and Proofs/CoalesceProof.lean shows the result is the same up to that
// order.

import (
	"context"
	"fmt"
	"math"
	"math/rand"
	"sort"
	"strings"
	"time"

	"github.com/prometheus/prometheus/model/labels"

	"github.com/thanos-community/promql-engine/execution/exchange"
	"github.com/thanos-community/promql-engine/execution/model"
)

// CoCase: the children of one coalesce operator and what each returns at every Next.
type CoCase struct {
	Sizes []int       `json:"sizes"` // number of series of every child
	Calls [][]CoBatch `json:"calls"` // per Next, per child
	Delay int64       `json:"delay"` // PRNG seed of the children's delays
}

// CoBatch: what a child returns from one Next; Nil = a nil slice (end of stream).
type CoBatch struct {
	Nil   bool     `json:"nil,omitempty"`
	Steps []CoStep `json:"steps,omitempty"`
}

type CoStep struct {
	T    int64 `json:"t"`
	IDs  []int `json:"ids"`
	Vals []F   `json:"vals"`
}

type fakeChild struct {
	series  []labels.Labels
	batches []CoBatch
	next    int
	pool    *model.VectorPool
	rnd     *rand.Rand
}

func (f *fakeChild) Series(context.Context) ([]labels.Labels, error) { return f.series, nil }
func (f *fakeChild) GetPool() *model.VectorPool                      { return f.pool }
func (f *fakeChild) Explain() (string, []model.VectorOperator)       { return "[fake]", nil }
func (f *fakeChild) Next(context.Context) ([]model.StepVector, error) {
	if d := f.rnd.Intn(4); d > 0 {
		time.Sleep(time.Duration(d*50) * time.Microsecond)
	}
	if f.next >= len(f.batches) {
		return nil, nil
	}
	b := f.batches[f.next]
	f.next++
	if b.Nil {
		return nil, nil
	}
	out := f.pool.GetVectorBatch()
	for _, st := range b.Steps {
		sv := f.pool.GetStepVector(st.T)
		for i, id := range st.IDs {
			sv.SampleIDs = append(sv.SampleIDs, uint64(id))
			sv.Samples = append(sv.Samples, float64(st.Vals[i]))
		}
		out = append(out, sv)
	}
	return out, nil
}

func coStepString(t int64, ids []uint64, vals []float64) string {
	idx := make([]int, len(ids))
	for i := range idx {
		idx[i] = i
	}
	sort.SliceStable(idx, func(a, b int) bool { return ids[idx[a]] < ids[idx[b]] })
	parts := make([]string, len(idx))
	for k, i := range idx {
		parts[k] = fmt.Sprintf("%d:%s", ids[i], kbitsAny(vals[i]))
	}
	return fmt.Sprintf("%d/%s", t, strings.Join(parts, ","))
}

func kbitsAny(v float64) string {
	if math.IsNaN(v) {
		return "7ff8000000000000"
	}
	return fmt.Sprintf("%016x", math.Float64bits(v))
}

func coalesceKernel(c *Case, lean *LeanDriver) Verdict {
	v := Verdict{ID: c.ID, Query: c.Query, Oracle: "kernel", Native: true}
	cc := c.KCo
	if cc == nil {
		v.Skipped = "no coalesce case"
		return v
	}
	rnd := rand.New(rand.NewSource(cc.Delay))
	var children []model.VectorOperator
	total := 0
	for i, n := range cc.Sizes {
		fc := &fakeChild{pool: model.NewVectorPool(10), rnd: rand.New(rand.NewSource(rnd.Int63()))}
		for k := 0; k < n; k++ {
			fc.series = append(fc.series, labels.FromStrings("child", fmt.Sprint(i), "s", fmt.Sprint(k)))
		}
		fc.pool.SetStepSize(n)
		for _, call := range cc.Calls {
			fc.batches = append(fc.batches, call[i])
		}
		children = append(children, fc)
		total += n
	}
	op := exchange.NewCoalesce(model.NewVectorPool(10), children...)
	ctx, cancel := context.WithTimeout(context.Background(), 20*time.Second)
	defer cancel()
	series, err := op.Series(ctx)
	if err != nil {
		v.Other = "Series: " + err.Error()
		return v
	}
	if len(series) != total {
		v.Other = fmt.Sprintf("Series: %d series for children with %d", len(series), total)
		return v
	}
	// the series of child i follow those of the children before it
	k := 0
	for i, n := range cc.Sizes {
		for j := 0; j < n; j++ {
			if series[k].Get("child") != fmt.Sprint(i) || series[k].Get("s") != fmt.Sprint(j) {
				v.Other = fmt.Sprintf("Series: position %d is %s", k, series[k])
				return v
			}
			k++
		}
	}
	var real, callsS []string
	for ci, call := range cc.Calls {
		out, err := op.Next(ctx)
		switch {
		case err != nil:
			real = append(real, "err")
		case out == nil:
			real = append(real, "nil")
		default:
			var steps []string
			for _, sv := range out {
				seen := map[uint64]bool{}
				for _, id := range sv.SampleIDs {
					if id >= uint64(total) || seen[id] {
						v.Contract = append(v.Contract, fmt.Sprintf("call %d: sample ID %d out of range or repeated", ci, id))
					}
					seen[id] = true
				}
				steps = append(steps, coStepString(sv.T, sv.SampleIDs, sv.Samples))
				if len(sv.Samples) > 0 {
					v.NonTriv = true
				}
			}
			real = append(real, strings.Join(steps, ";"))
		}
		var ch []string
		for _, b := range call {
			if b.Nil {
				ch = append(ch, "-")
				continue
			}
			var steps []string
			for _, st := range b.Steps {
				ids := make([]uint64, len(st.IDs))
				vals := make([]float64, len(st.IDs))
				for i := range st.IDs {
					ids[i], vals[i] = uint64(st.IDs[i]), float64(st.Vals[i])
				}
				steps = append(steps, coStepString(st.T, ids, vals))
			}
			if len(steps) == 0 {
				ch = append(ch, "e")
			} else {
				ch = append(ch, strings.Join(steps, ";"))
			}
		}
		callsS = append(callsS, strings.Join(ch, "|"))
	}
	sz := make([]string, len(cc.Sizes))
	for i, n := range cc.Sizes {
		sz[i] = fmt.Sprint(n)
	}
	ans, aerr := lean.Ask([]string{"case " + c.ID, "kernel coalesce " + strings.Join(sz, ",") + " " + strings.Join(callsS, "#"), "end"})
	if aerr != nil {
		v.Crash = "lean: " + aerr.Error()
		return v
	}
	var fwd, rev, spec string
	for _, f := range strings.Fields(ans["kernel"]) {
		switch {
		case strings.HasPrefix(f, "fwd="):
			fwd = f[4:]
		case strings.HasPrefix(f, "rev="):
			rev = f[4:]
		case strings.HasPrefix(f, "spec="):
			spec = f[5:]
		}
	}
	got := strings.Join(real, "#")
	if got != fwd {
		v.EngVsModel = "coalesce vs model (arrival in child order): " + got + " vs " + fwd
	}
	if fwd != rev {
		v.ModelVsSpec = "model, arrival in child order vs reversed: " + fwd + " vs " + rev
	} else if fwd != spec {
		v.ModelVsSpec = "model vs merged specification: " + fwd + " vs " + spec
	}
	v.Steps = len(cc.Calls)
	v.NumSeries = total
	v.Features = []string{c.Query, fmt.Sprintf("children:%d", len(cc.Sizes))}
	return v
}

// coCase: aligned children (the same step timestamps in every batch, as siblings of a plan
// deliver), some without series, some steps without samples, then the end of the stream.
func (g *Gen) coCase(i int) *Case {
	c := &Case{ID: fmt.Sprintf("kco-%d", i), Profile: "kco", Query: "kernel:coalesce"}
	cc := &CoCase{Delay: g.r.Int63()}
	nch := int(g.pickI(1, 2, 2, 3, 4, 8, 16))
	for k := 0; k < nch; k++ {
		cc.Sizes = append(cc.Sizes, int(g.pickI(0, 1, 1, 2, 3, 5, 9)))
	}
	t := g.pickI(0, 1000, 1_700_000_000_000, -5000)
	step := g.pickI(1, 1000, 15000, 60000)
	for ncall := 1 + g.r.Intn(4); ncall > 0; ncall-- {
		nst := 1 + g.r.Intn(10)
		call := make([]CoBatch, nch)
		for s := 0; s < nst; s++ {
			for k := 0; k < nch; k++ {
				st := CoStep{T: t}
				perm := g.r.Perm(cc.Sizes[k])
				keep := 0
				if cc.Sizes[k] > 0 {
					keep = g.r.Intn(cc.Sizes[k] + 1)
				}
				if g.chance(0.5) {
					keep = cc.Sizes[k]
				}
				ids := append([]int(nil), perm[:keep]...)
				if g.chance(0.7) {
					sort.Ints(ids)
				}
				for _, id := range ids {
					st.IDs = append(st.IDs, id)
					st.Vals = append(st.Vals, F(float64(g.r.Intn(200)-100)))
				}
				call[k].Steps = append(call[k].Steps, st)
			}
			t += step
		}
		cc.Calls = append(cc.Calls, call)
	}
	// the end of the stream: every child returns nil
	end := make([]CoBatch, nch)
	for k := range end {
		end[k].Nil = true
	}
	cc.Calls = append(cc.Calls, end)
	c.KCo = cc
	return c
}
