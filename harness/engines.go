package main

// Running the engine under test and the reference Prometheus engine on a case, and
// canonical results.

import (
	"context"
	"fmt"
	"io"
	"math"
	"sort"
	"strings"
	"time"

	"github.com/prometheus/client_golang/prometheus"
	"github.com/prometheus/prometheus/model/labels"
	"github.com/prometheus/prometheus/model/value"
	"github.com/prometheus/prometheus/promql"
	"github.com/prometheus/prometheus/storage"

	"github.com/thanos-community/promql-engine/engine"
)

type Pt struct {
	T int64 `json:"t"`
	V F     `json:"v"`
}

type RSeries struct {
	Labels string `json:"labels"`
	Pts    []Pt   `json:"pts"`
}

// Result is a canonicalised promql.Result. Series are sorted by label string; Order keeps the
// order in which the engine returned them (for well-formedness checks).
type Result struct {
	Kind   string    `json:"kind"` // matrix | vector | scalar | string | err
	Err    string    `json:"err,omitempty"`
	Series []RSeries `json:"series,omitempty"`
	Order  []string  `json:"order,omitempty"`
	WF     []string  `json:"wf,omitempty"` // well-formedness complaints (C19)
}

func lblString(l labels.Labels) string {
	parts := make([]string, 0, len(l))
	for _, x := range l {
		parts = append(parts, x.Name+"="+x.Value)
	}
	return strings.Join(parts, ",")
}

func checkLabelsWF(l labels.Labels) []string {
	var w []string
	for i, x := range l {
		if x.Value == "" {
			w = append(w, "empty-label-value:"+x.Name)
		}
		if i > 0 && l[i-1].Name == x.Name {
			w = append(w, "repeated-label:"+x.Name)
		} else if i > 0 && l[i-1].Name > x.Name {
			w = append(w, "unsorted-labels:"+lblString(l))
		}
	}
	return w
}

func isStale(v float64) bool { return math.Float64bits(v) == value.StaleNaN }

// Canon turns a promql.Result into a Result and records structural defects.
func Canon(r *promql.Result, c *Case) Result {
	if r.Err != nil {
		return Result{Kind: "err", Err: r.Err.Error()}
	}
	out := Result{}
	grid := map[int64]bool{}
	for _, t := range c.Grid() {
		grid[t] = true
	}
	seen := map[string]bool{}
	addSeries := func(l labels.Labels, pts []promql.Point) {
		ls := lblString(l)
		out.WF = append(out.WF, checkLabelsWF(l)...)
		if seen[ls] {
			out.WF = append(out.WF, "duplicate-labelset:"+ls)
		}
		seen[ls] = true
		rs := RSeries{Labels: ls}
		for i, p := range pts {
			if isStale(p.V) {
				out.WF = append(out.WF, "stale-marker-in-result")
			}
			if !grid[p.T] {
				out.WF = append(out.WF, fmt.Sprintf("timestamp-off-grid:%d", p.T))
			}
			if i > 0 && pts[i-1].T >= p.T {
				out.WF = append(out.WF, fmt.Sprintf("timestamps-not-increasing:%s", ls))
			}
			rs.Pts = append(rs.Pts, Pt{T: p.T, V: F(p.V)})
		}
		out.Series = append(out.Series, rs)
		out.Order = append(out.Order, ls)
	}
	switch v := r.Value.(type) {
	case promql.Matrix:
		out.Kind = "matrix"
		for i, s := range v {
			if len(s.Points) == 0 {
				out.WF = append(out.WF, "empty-series")
			}
			if i > 0 && labels.Compare(v[i-1].Metric, s.Metric) > 0 {
				out.WF = append(out.WF, "matrix-not-sorted")
			}
			addSeries(s.Metric, s.Points)
		}
	case promql.Vector:
		out.Kind = "vector"
		for _, s := range v {
			addSeries(s.Metric, []promql.Point{s.Point})
		}
	case promql.Scalar:
		out.Kind = "scalar"
		addSeries(nil, []promql.Point{{T: v.T, V: v.V}})
	case promql.String:
		out.Kind = "string"
	default:
		out.Kind = fmt.Sprintf("unknown:%T", r.Value)
	}
	sortSeries(out.Series)
	return out
}

type EngOpts struct {
	DisableFallback bool
	Reg             prometheus.Registerer
	Debug           bool // Opts.DebugWriter set: the plan is explained at query creation
}

func NewThanos(c *Case, eo EngOpts) interface {
	NewInstantQuery(q storage.Queryable, opts *promql.QueryOpts, qs string, ts time.Time) (promql.Query, error)
	NewRangeQuery(q storage.Queryable, opts *promql.QueryOpts, qs string, start, end time.Time, step time.Duration) (promql.Query, error)
} {
	return engine.New(engine.Opts{
		EngineOpts: promql.EngineOpts{
			Timeout:              time.Hour,
			MaxSamples:           50000000,
			LookbackDelta:        time.Duration(c.Lookback) * time.Millisecond,
			EnableAtModifier:     true,
			EnableNegativeOffset: true,
			Reg:                  eo.Reg,
		},
		LogicalOptimizers: c.Optimizers(),
		DisableFallback:   eo.DisableFallback,
		DebugWriter:       debugWriter(eo.Debug),
	})
}

func debugWriter(on bool) io.Writer {
	if on {
		return io.Discard
	}
	return nil
}

func NewProm(c *Case) *promql.Engine {
	return promql.NewEngine(promql.EngineOpts{
		Timeout:              time.Hour,
		MaxSamples:           50000000,
		LookbackDelta:        time.Duration(c.Lookback) * time.Millisecond,
		EnableAtModifier:     true,
		EnableNegativeOffset: true,
	})
}

type queryEngine interface {
	NewInstantQuery(q storage.Queryable, opts *promql.QueryOpts, qs string, ts time.Time) (promql.Query, error)
	NewRangeQuery(q storage.Queryable, opts *promql.QueryOpts, qs string, start, end time.Time, step time.Duration) (promql.Query, error)
}

func (c *Case) qopts() *promql.QueryOpts {
	if c.QLookback != 0 {
		return &promql.QueryOpts{LookbackDelta: time.Duration(c.QLookback) * time.Millisecond}
	}
	return nil
}

func (c *Case) NewQuery(e queryEngine, st storage.Queryable) (promql.Query, error) {
	if c.Instant() {
		return e.NewInstantQuery(st, c.qopts(), c.Query, c.tStart())
	}
	return e.NewRangeQuery(st, c.qopts(), c.Query, c.tStart(), c.tEnd(), time.Duration(c.Step)*time.Millisecond)
}

// Exec creates, executes and closes a query; a creation error is reported as an error result
// with the prefix "create: ".
func (c *Case) Exec(ctx context.Context, e queryEngine, st storage.Queryable) Result {
	q, err := c.NewQuery(e, st)
	if err != nil {
		return Result{Kind: "err", Err: "create: " + err.Error()}
	}
	defer q.Close()
	return Canon(q.Exec(ctx), c)
}

// ---------------------------------------------------------------------------------------------
// comparison

// Tolerances of the value comparison. "Up to floating-point rounding" has to allow for
// cancellation: an average or a standard deviation computed in another order (sum/count vs
// incremental mean, one partition vs several) differs by rounding errors that are relative to the
// magnitude of the *operands*, not of the result. The harness does not see the operands, so:
// the relative tolerance is 1e-9 (1e-6 for queries with a variance-type reduction, which squares
// the operands), plus an absolute tolerance relative to the largest value in the two results.
var (
	overflowLoose bool
	relTol        = 1e-9
	absScale      = 1e-12
)

// setTolerances picks the tolerances for one case (workers handle one case at a time).
func setTolerances(query string) {
	relTol, absScale = 1e-9, 1e-12
	for _, w := range []string{"stddev", "stdvar", "deriv", "predict_linear"} {
		if strings.Contains(query, w) {
			relTol, absScale = 1e-6, 1e-9
		}
	}
}

// setOverflow: a sum over samples near the largest double overflows in one summation order and
// not in another (the vectorized sum adds in lanes, the reference engine left to right, and the
// partial sums of +-1.7e308 go to +Inf, -Inf or NaN accordingly). Where that can happen there
// is no order-independent value to compare: two extreme values count as equal.
func setOverflow(c *Case) {
	overflowLoose = false
	q := c.Query
	if !strings.Contains(q, "sum") && !strings.Contains(q, "stddev") && !strings.Contains(q, "stdvar") {
		return
	}
	for _, sd := range c.Data() {
		for _, smp := range sd.Samples {
			if v := math.Abs(smp.V); !math.IsInf(v, 0) && v >= 1e300 {
				overflowLoose = true
				return
			}
		}
	}
}

// setConditioning: the variance of values that are large compared with their spread
// (stdvar(timestamp(m)): values around 1.7e9, variance 0.03) is ill-conditioned - the relative
// error of the running-mean recurrence both engines use is about eps * |mean| / stddev per
// operation, and the two engines feed the samples in different orders. varCondM is the magnitude
// of the inputs for such queries (0: rule off).
func setConditioning(c *Case) {
	varCondM = 0
	q := c.Query
	if !strings.Contains(q, "stddev") && !strings.Contains(q, "stdvar") {
		return
	}
	m := 0.0
	for _, sd := range c.Data() {
		for _, smp := range sd.Samples {
			if v := math.Abs(smp.V); !math.IsInf(v, 0) && !math.IsNaN(v) && v > m {
				m = v
			}
		}
	}
	if strings.Contains(q, "timestamp") || strings.Contains(q, "time()") {
		m = math.Max(m, math.Abs(float64(c.End))/1000)
	}
	varCondM = m
}

var varCondM float64

func extremeValue(x float64) bool {
	return math.IsNaN(x) || math.IsInf(x, 0) || math.Abs(x) >= 1e300
}

func floatEqS(a, b, scale float64) bool {
	if overflowLoose && extremeValue(a) && extremeValue(b) {
		return true
	}
	if math.IsNaN(a) || math.IsNaN(b) {
		return math.IsNaN(a) && math.IsNaN(b)
	}
	if math.IsInf(a, 0) || math.IsInf(b, 0) {
		return a == b
	}
	if a == b {
		return true
	}
	d := math.Abs(a - b)
	m := math.Max(math.Abs(a), math.Abs(b))
	if varCondM > 0 && m > 0 {
		// whether the compared value is a variance or a standard deviation is not known here: take
		// the smaller estimate of the spread (the looser bound)
		spread := math.Min(m, math.Sqrt(m))
		if d <= 256*2.3e-16*varCondM/spread*m {
			return true
		}
	}
	return d <= relTol*m || d < 1e-300 || d <= absScale*scale
}

func floatEq(a, b float64) bool { return floatEqS(a, b, 0) }

// maxAbs is the largest finite magnitude in a result.
func maxAbs(r Result) float64 {
	m := 0.0
	for _, s := range r.Series {
		for _, p := range s.Pts {
			v := math.Abs(float64(p.V))
			if !math.IsNaN(v) && !math.IsInf(v, 0) && v > m {
				m = v
			}
		}
	}
	return m
}

// Diff returns "" when the two results agree (type, series, timestamps, values up to
// tolerance; errors agree when both are errors), else a short description.
func Diff(a, b Result) string {
	if a.Kind == "err" || b.Kind == "err" {
		if a.Kind == b.Kind {
			return ""
		}
		return fmt.Sprintf("kind %s(%s) vs %s(%s)", a.Kind, trunc(a.Err), b.Kind, trunc(b.Err))
	}
	if a.Kind != b.Kind {
		return fmt.Sprintf("kind %s vs %s", a.Kind, b.Kind)
	}
	if len(a.Series) != len(b.Series) {
		return fmt.Sprintf("series count %d vs %d: %v vs %v", len(a.Series), len(b.Series), serNames(a), serNames(b))
	}
	scale := math.Max(maxAbs(a), maxAbs(b))
	for i := range a.Series {
		x, y := a.Series[i], b.Series[i]
		if x.Labels != y.Labels {
			return fmt.Sprintf("labels {%s} vs {%s}", x.Labels, y.Labels)
		}
		if len(x.Pts) != len(y.Pts) {
			return fmt.Sprintf("{%s}: %d vs %d points", x.Labels, len(x.Pts), len(y.Pts))
		}
		for j := range x.Pts {
			if x.Pts[j].T != y.Pts[j].T {
				return fmt.Sprintf("{%s}[%d]: t %d vs %d", x.Labels, j, x.Pts[j].T, y.Pts[j].T)
			}
			if !floatEqS(float64(x.Pts[j].V), float64(y.Pts[j].V), scale) {
				return fmt.Sprintf("{%s}@%d: %v vs %v", x.Labels, x.Pts[j].T, float64(x.Pts[j].V), float64(y.Pts[j].V))
			}
		}
	}
	return ""
}

func serNames(r Result) []string {
	var s []string
	for _, x := range r.Series {
		s = append(s, "{"+x.Labels+"}")
	}
	return s
}

func trunc(s string) string {
	if len(s) > 160 {
		return s[:160] + "..."
	}
	return s
}

// ErrClass maps an error message to a small enum.
func ErrClass(msg string) string {
	switch {
	case msg == "":
		return ""
	case strings.Contains(msg, "many-to-many matching not allowed"):
		return "many-to-many"
	case strings.Contains(msg, "multiple matches for labels: many-to-one"):
		return "many-to-one-implicit"
	case strings.Contains(msg, "multiple matches for labels: grouping labels must ensure unique matches"):
		return "grouping-not-unique"
	case strings.Contains(msg, "same labelset"):
		return "duplicate-labelset"
	case strings.Contains(msg, "context canceled"), strings.Contains(msg, "deadline exceeded"), strings.Contains(msg, "query was canceled"):
		return "canceled"
	case strings.Contains(msg, "injected"):
		return "storage"
	case strings.Contains(msg, "unsupported expression"), strings.Contains(msg, "not implemented"):
		return "unsupported"
	case strings.Contains(msg, "overflows int64"), strings.Contains(msg, "Scalar value"):
		return "bad-param"
	}
	return "other"
}

// sortSeries orders series by labels and, for equal label sets, by their points, so that
// results with duplicate label sets still compare as multisets.
func sortSeries(ss []RSeries) {
	key := func(s RSeries) string {
		var sb strings.Builder
		for _, p := range s.Pts {
			bits := math.Float64bits(float64(p.V))
			if math.IsNaN(float64(p.V)) {
				bits = 0x7ff8000000000000 // one key for every NaN, whatever its sign and payload
			}
			if float64(p.V) == 0 {
				bits = 0 // +0 and -0 compare equal, so they sort alike
			}
			fmt.Fprintf(&sb, "%d:%016x,", p.T, bits)
		}
		return sb.String()
	}
	sort.SliceStable(ss, func(i, j int) bool {
		if ss[i].Labels != ss[j].Labels {
			return ss[i].Labels < ss[j].Labels
		}
		return key(ss[i]) < key(ss[j])
	})
}
