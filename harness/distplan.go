package main

// Plan-level correspondence for the distributed-execution optimizer: the real
// logicalplan.DistributedExecutionOptimizer applied to the preprocessed query, against the Lean
// model of its traversal (Dist.lean), compared through the shape of the resulting plan - node
// kinds, operators, function names, and where the coalesce and remote nodes sit, with the shape
// of every remote node's query text.

import (
	"fmt"
	"os"
	"strings"

	"github.com/prometheus/prometheus/promql/parser"

	"github.com/thanos-community/promql-engine/api"
	"github.com/thanos-community/promql-engine/logicalplan"
)

func planShape(e parser.Expr, inRemote bool) string {
	args := func(es []parser.Expr) string {
		parts := make([]string, len(es))
		for i, a := range es {
			parts[i] = planShape(a, inRemote)
		}
		return strings.Join(parts, ",")
	}
	switch n := e.(type) {
	case *parser.NumberLiteral:
		return "n"
	case *parser.StringLiteral:
		return "s"
	case *parser.VectorSelector:
		return "v"
	case *logicalplan.FilteredSelector:
		return "v"
	case *parser.MatrixSelector:
		if _, ok := n.VectorSelector.(*parser.VectorSelector); !ok {
			return "BADM"
		}
		return "m"
	case *parser.SubqueryExpr:
		return "q(" + planShape(n.Expr, inRemote) + ")"
	case *parser.Call:
		return "c:" + n.Func.Name + "(" + args(n.Args) + ")"
	case *parser.AggregateExpr:
		// operator, by/without and the grouping labels as written (the local re-aggregation must
		// keep them)
		grp := "{" + strings.Join(n.Grouping, ";") + "}"
		if n.Without {
			grp = "!" + grp
		}
		if n.Param != nil {
			return "a:" + n.Op.String() + grp + "[" + planShape(n.Param, inRemote) + "](" + planShape(n.Expr, inRemote) + ")"
		}
		return "a:" + n.Op.String() + grp + "(" + planShape(n.Expr, inRemote) + ")"
	case *parser.BinaryExpr:
		return "b:" + n.Op.String() + "(" + planShape(n.LHS, inRemote) + "," + planShape(n.RHS, inRemote) + ")"
	case *parser.UnaryExpr:
		if n.Op == parser.SUB {
			return "-(" + planShape(n.Expr, inRemote) + ")"
		}
		return "+(" + planShape(n.Expr, inRemote) + ")"
	case *parser.ParenExpr:
		return "p(" + planShape(n.Expr, inRemote) + ")"
	case *parser.StepInvariantExpr:
		if inRemote {
			return planShape(n.Expr, inRemote)
		}
		return "i(" + planShape(n.Expr, inRemote) + ")"
	case logicalplan.Coalesce:
		parts := make([]string, len(n.Expressions))
		for i, a := range n.Expressions {
			if r, ok := a.(*logicalplan.RemoteExecution); ok {
				sub, err := parser.ParseExpr(r.Query)
				if err != nil {
					parts[i] = fmt.Sprintf("R%d(UNPARSABLE %s)", i, r.Query)
				} else {
					parts[i] = fmt.Sprintf("R%d(%s)", i, planShape(sub, true))
				}
			} else {
				parts[i] = planShape(a, inRemote)
			}
		}
		return "C(" + strings.Join(parts, ",") + ")"
	case *logicalplan.RemoteExecution:
		return "R?(" + n.Query + ")"
	}
	return fmt.Sprintf("UNKNOWN(%T)", e)
}

func distPlanCase(c *Case, lean *LeanDriver) Verdict {
	v := baseVerdict(c, "distplan")
	n := len(c.Parts)
	if n == 0 {
		n = 1 + int(c.Start%4+4)%4
	}
	plan, err := c.Preprocess()
	if err != nil {
		v.Skipped = "parse: " + err.Error()
		return v
	}
	lines, err := c.ProtoLines(plan, []string{fmt.Sprintf("distplan:%d", n), "siteok"})
	if err != nil {
		v.Skipped = "proto: " + err.Error()
		return v
	}
	v.Features = features(lines[len(lines)-4])
	ans, err := lean.Ask(lines)
	if err != nil {
		v.Other = "lean: " + err.Error()
		return v
	}
	model := ans[fmt.Sprintf("distplan:%d", n)]
	if ans["siteok"] == "1" {
		v.Features = append(v.Features, "theorem-applies")
	} else {
		v.Features = append(v.Features, "outside-siteOk")
	}
	fresh, _ := c.Preprocess()
	engines := make([]api.RemoteEngine, n)
	for i := range engines {
		engines[i] = remoteEngine{c: c}
	}
	opt := logicalplan.DistributedExecutionOptimizer{Endpoints: api.NewStaticEndpoints(engines)}
	got := planShape(opt.Optimize(fresh), false)
	if strings.Contains(got, "BADM") {
		got = "BADM"
	}
	v.Native = true
	if os.Getenv("VERIF_DEBUG_PLAN") != "" {
		fmt.Fprintf(os.Stderr, "PLAN %s | %s | %s\n", c.Query, got, model)
	}
	v.NonTriv = strings.Contains(got, "R0(")
	if got != model {
		v.EngVsModel = fmt.Sprintf("optimized plan %s vs model %s", got, model)
	}
	return v
}
