package main

import (
	"bufio"
	"context"
	"encoding/json"
	"flag"
	"fmt"
	"os"
	"runtime"
)

func main() {
	if len(os.Args) < 2 {
		fmt.Fprintln(os.Stderr, "usage: harness <cmd> [flags]")
		os.Exit(2)
	}
	cmd := os.Args[1]
	fs := flag.NewFlagSet(cmd, flag.ExitOnError)
	seed := fs.Int64("seed", 1, "PRNG seed")
	n := fs.Int("n", 100, "number of cases")
	prof := fs.String("profile", "mixed", "generator profile")
	in := fs.String("in", "", "input case file (JSON lines)")
	out := fs.String("out", "", "output file")
	oracle := fs.String("oracle", "diff", "oracle to run")
	workers := fs.Int("workers", 8, "worker processes")
	_ = fs.Parse(os.Args[2:])
	switch cmd {
	case "gen":
		g := NewGen(*seed, *prof)
		w := bufio.NewWriter(os.Stdout)
		if *out != "" {
			f, err := os.Create(*out)
			if err != nil {
				panic(err)
			}
			defer f.Close()
			w = bufio.NewWriter(f)
		}
		defer w.Flush()
		var cases []*Case
		switch *prof {
		case "fallback":
			cases = fallbackCases()
		default:
			for i := 0; i < *n; i++ {
				switch *prof {
				case "optx":
					cases = append(cases, g.optCase(i))
				case "dist":
					cases = append(cases, g.distCase(i))
				case "dnest":
					cases = append(cases, g.dnestCase(i))
				case "dfunc":
					cases = append(cases, g.dfuncCase(i))
				case "incl":
					cases = append(cases, g.inclCase(i))
				case "late":
					cases = append(cases, g.lateCase(i))
				case "sequence", "concurrent":
					cases = append(cases, g.multiCase(i, *prof))
				case "extreme":
					cases = append(cases, g.extremeCase(i))
				case "kernel":
					cases = append(cases, g.kernelCase(i))
				case "kco":
					cases = append(cases, g.coCase(i))
				case "kpull":
					cases = append(cases, g.pullCase(i))
				case "krem":
					cases = append(cases, g.remCase(i))
				case "kslice":
					cases = append(cases, g.sliceCase(i))
				default:
					cases = append(cases, g.Case(i))
				}
			}
		}
		for _, c := range cases {
			b, _ := json.Marshal(c)
			w.Write(b)
			w.WriteByte('\n')
		}
	case "explore":
		// engine vs prometheus, no model: used while developing generators
		g := NewGen(*seed, *prof)
		agree, differ := 0, 0
		for i := 0; i < *n; i++ {
			c := g.Case(i)
			if _, err := c.Preprocess(); err != nil {
				fmt.Println("PARSE", c.Query, err)
				continue
			}
			runtime.GOMAXPROCS(c.Procs)
			st := NewMemStorage(c.Data())
			pr := c.Exec(context.Background(), NewProm(c), st)
			b, _ := json.Marshal(c)
			fmt.Fprintln(os.Stderr, string(b))
			er := c.Exec(context.Background(), NewThanos(c, EngOpts{DisableFallback: true}), NewMemStorage(c.Data()))
			if d := Diff(er, pr); d != "" {
				differ++
				fmt.Printf("DIFF %s | %s | start=%d end=%d step=%d lb=%d | %s\n", c.ID, c.Query, c.Start, c.End, c.Step, c.Lookback, d)
			} else {
				agree++
			}
		}
		fmt.Println("agree", agree, "differ", differ)
	default:
		if !dispatch(cmd, *in, *out, *seed, *n, *prof, *oracle, *workers) {
			fmt.Fprintln(os.Stderr, "unknown command", cmd)
			os.Exit(2)
		}
	}
}
