package main

// Bridge to the compiled Lean driver.

import (
	"bufio"
	"fmt"
	"io"
	"math"
	"os"
	"os/exec"
	"strconv"
	"strings"
)

type LeanDriver struct {
	cmd *exec.Cmd
	in  io.WriteCloser
	out *bufio.Reader
}

func driverPath() string {
	if p := os.Getenv("VERIF_DRIVER"); p != "" {
		return p
	}
	return "/verif/lean/.lake/build/bin/driver"
}

func StartLean() (*LeanDriver, error) {
	cmd := exec.Command(driverPath())
	in, err := cmd.StdinPipe()
	if err != nil {
		return nil, err
	}
	out, err := cmd.StdoutPipe()
	if err != nil {
		return nil, err
	}
	cmd.Stderr = os.Stderr
	if err := cmd.Start(); err != nil {
		return nil, err
	}
	return &LeanDriver{cmd: cmd, in: in, out: bufio.NewReaderSize(out, 1<<20)}, nil
}

func (d *LeanDriver) Close() {
	d.in.Close()
	d.cmd.Wait()
}

// Ask sends one case block and returns view -> answer.
func (d *LeanDriver) Ask(lines []string) (map[string]string, error) {
	var sb strings.Builder
	for _, l := range lines {
		sb.WriteString(l)
		sb.WriteByte('\n')
	}
	if _, err := io.WriteString(d.in, sb.String()); err != nil {
		return nil, err
	}
	res := map[string]string{}
	for {
		line, err := d.out.ReadString('\n')
		if err != nil {
			return nil, fmt.Errorf("lean driver: %w", err)
		}
		line = strings.TrimRight(line, "\n")
		if line == "end" {
			return res, nil
		}
		sp := strings.SplitN(line, " ", 2)
		if len(sp) == 2 {
			res[sp[0]] = sp[1]
		} else {
			res[sp[0]] = ""
		}
	}
}

// ParseLeanResult parses `matrix ;labels@t:bits,t:bits ;...`, `vector ...`, `scalar ...`,
// `err <class>`.
func ParseLeanResult(s string) (Result, error) {
	if s == "bad-op" {
		return Result{}, fmt.Errorf("bad-op")
	}
	parts := strings.Split(s, " ;")
	head := strings.Fields(parts[0])
	if len(head) == 0 {
		return Result{}, fmt.Errorf("empty answer")
	}
	r := Result{Kind: head[0]}
	if r.Kind == "err" {
		if len(head) > 1 {
			r.Err = head[1]
		}
		return r, nil
	}
	for _, p := range parts[1:] {
		at := strings.LastIndex(p, "@")
		if at < 0 {
			return r, fmt.Errorf("bad series %q", p)
		}
		rs := RSeries{Labels: p[:at]}
		for _, pt := range strings.Split(p[at+1:], ",") {
			if pt == "" {
				continue
			}
			kv := strings.SplitN(pt, ":", 2)
			t, err := strconv.ParseInt(kv[0], 10, 64)
			if err != nil {
				return r, err
			}
			u, err := strconv.ParseUint(kv[1], 16, 64)
			if err != nil {
				return r, err
			}
			rs.Pts = append(rs.Pts, Pt{T: t, V: F(math.Float64frombits(u))})
		}
		r.Series = append(r.Series, rs)
	}
	sortSeries(r.Series)
	return r, nil
}
