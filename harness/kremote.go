package main

// Kernel-level correspondence for remote execution beyond the optimizer: the real
// remote.NewExecution over a stub promql.Query that returns a prescribed (well-formed) matrix or
// vector, against the Lean model of the transport (Remote.lean: the adapter's storage read by a
// vector selector with lookback 0) and its specification (the points stamped t). The stub scribbles
// over the memory of its result when it is closed, as an engine that reuses its buffers may, and
// counts Exec and Close calls.

import (
	"context"
	"fmt"
	"math"
	"strings"
	"time"

	"github.com/prometheus/prometheus/model/labels"
	"github.com/prometheus/prometheus/promql"
	"github.com/prometheus/prometheus/promql/parser"
	"github.com/prometheus/prometheus/util/stats"

	"github.com/thanos-community/promql-engine/execution/model"
	"github.com/thanos-community/promql-engine/execution/remote"
	"github.com/thanos-community/promql-engine/query"
)

// RemCase: the result of the remote query and the window it is read over.
type RemCase struct {
	Vector   bool     `json:"vector,omitempty"` // an instant result (promql.Vector) instead of a matrix
	Series   []RemSer `json:"series"`
	Lookback int64    `json:"lookback"` // the coordinator's lookback delta in ms (the operator must ignore it)
}

type RemSer struct {
	Ts   []int64 `json:"ts"`
	Vals []F     `json:"vals"`
}

type stubQuery struct {
	res    *promql.Result
	execs  int
	closes int
}

func (s *stubQuery) Exec(context.Context) *promql.Result { s.execs++; return s.res }
func (s *stubQuery) Close() {
	s.closes++
	if m, ok := s.res.Value.(promql.Matrix); ok {
		for _, sr := range m {
			for i := range sr.Points {
				sr.Points[i] = promql.Point{T: -7777, V: 424242}
			}
		}
	}
}
func (s *stubQuery) Statement() parser.Statement { return nil }
func (s *stubQuery) Stats() *stats.Statistics    { return nil }
func (s *stubQuery) Cancel()                     {}
func (s *stubQuery) String() string              { return "stub" }

func remoteKernel(c *Case, lean *LeanDriver) Verdict {
	v := Verdict{ID: c.ID, Query: c.Query, Oracle: "kernel", Native: true}
	rc := c.KRem
	if rc == nil {
		v.Skipped = "no remote case"
		return v
	}
	var lbls []labels.Labels
	var val parser.Value
	if rc.Vector {
		var vec promql.Vector
		for i, s := range rc.Series {
			l := labels.FromStrings("__name__", "r", "i", fmt.Sprint(i))
			lbls = append(lbls, l)
			vec = append(vec, promql.Sample{Metric: l, Point: promql.Point{T: s.Ts[0], V: float64(s.Vals[0])}})
		}
		val = vec
	} else {
		mat := promql.Matrix{}
		for i, s := range rc.Series {
			l := labels.FromStrings("__name__", "r", "i", fmt.Sprint(i))
			lbls = append(lbls, l)
			sr := promql.Series{Metric: l}
			for k := range s.Ts {
				sr.Points = append(sr.Points, promql.Point{T: s.Ts[k], V: float64(s.Vals[k])})
			}
			mat = append(mat, sr)
		}
		val = mat
	}
	sq := &stubQuery{res: &promql.Result{Value: val}}
	opts := &query.Options{
		Start:         time.UnixMilli(c.Start),
		End:           time.UnixMilli(c.End),
		Step:          time.Duration(c.Step) * time.Millisecond,
		LookbackDelta: time.Duration(rc.Lookback) * time.Millisecond,
		StepsBatch:    10,
	}
	op := remote.NewExecution(sq, model.NewVectorPool(10), opts)
	ctx, cancel := context.WithTimeout(context.Background(), 20*time.Second)
	defer cancel()
	series, err := op.Series(ctx)
	if err != nil {
		v.Other = "Series: " + err.Error()
		return v
	}
	if len(series) != len(lbls) {
		v.Other = fmt.Sprintf("Series: %d series for a result with %d", len(series), len(lbls))
		return v
	}
	for i := range series {
		if !labels.Equal(series[i], lbls[i]) {
			v.Other = fmt.Sprintf("Series: position %d is %s, the result has %s", i, series[i], lbls[i])
			return v
		}
	}
	var real []string
	for guard := 0; guard < 100000; guard++ {
		out, err := op.Next(ctx)
		if err != nil {
			v.Other = "Next: " + err.Error()
			return v
		}
		if out == nil {
			break
		}
		for _, sv := range out {
			real = append(real, coStepString(sv.T, sv.SampleIDs, sv.Samples))
			if len(sv.Samples) > 0 {
				v.NonTriv = true
			}
		}
	}
	if sq.execs != 1 || sq.closes != 1 {
		v.Other = fmt.Sprintf("the remote query was executed %d times and closed %d times", sq.execs, sq.closes)
		return v
	}
	var grid []string
	if c.Step == 0 {
		grid = []string{fmt.Sprint(c.Start)}
	} else {
		for t := c.Start; t <= c.End; t += c.Step {
			grid = append(grid, fmt.Sprint(t))
		}
	}
	var ms []string
	for _, s := range rc.Series {
		if len(s.Ts) == 0 {
			ms = append(ms, "e")
			continue
		}
		var ps []string
		for k := range s.Ts {
			ps = append(ps, fmt.Sprintf("%d:%s", s.Ts[k], kbitsAny(float64(s.Vals[k]))))
		}
		ms = append(ms, strings.Join(ps, ","))
	}
	if len(ms) == 0 {
		ms = []string{"e"}
	}
	ans, aerr := lean.Ask([]string{"case " + c.ID, "kernel remote 0 " + strings.Join(grid, ",") + " " + strings.Join(ms, "#"), "end"})
	if aerr != nil {
		v.Crash = "lean: " + aerr.Error()
		return v
	}
	var read, spec string
	for _, f := range strings.Fields(ans["kernel"]) {
		switch {
		case strings.HasPrefix(f, "read="):
			read = f[5:]
		case strings.HasPrefix(f, "spec="):
			spec = f[5:]
		}
	}
	if got := strings.Join(real, ";"); got != read {
		v.EngVsModel = "remote operator vs model: " + got + " vs " + read
	}
	if read != spec {
		v.ModelVsSpec = "model vs specification (the points stamped t): " + read + " vs " + spec
	}
	v.Steps = len(grid)
	v.NumSeries = len(rc.Series)
	kind := "matrix"
	if rc.Vector {
		kind = "vector"
	}
	v.Features = []string{c.Query, "result:" + kind, fmt.Sprintf("lookback:%d", rc.Lookback)}
	return v
}

// remCase: a well-formed result on the window's grid - series that start late, end early, have
// gaps, are empty (a matrix never has one, the adapter must not mind), NaN and infinite values -
// read under a coordinator lookback of 0 to 5 minutes.
func (g *Gen) remCase(i int) *Case {
	c := &Case{ID: fmt.Sprintf("krem-%d", i), Profile: "krem", Query: "kernel:remote"}
	rc := &RemCase{Lookback: g.pickI(0, 1, 1000, 30000, 300000, 300000)}
	c.Start = g.pickI(0, 1000, 1_700_000_000_000, -5000, 123)
	c.Step = g.pickI(1, 1000, 15000, 60000, 7)
	nsteps := int(g.pickI(1, 2, 3, 9, 10, 11, 20, 21, 37))
	c.End = c.Start + int64(nsteps-1)*c.Step + g.pickI(0, 0, c.Step-1, c.Step/2)
	if g.chance(0.2) {
		rc.Vector = true
		c.Step = 0
		c.End = c.Start
		nsteps = 1
	}
	val := func() F {
		switch g.r.Intn(12) {
		case 0:
			return F(math.NaN())
		case 1:
			return F(math.Inf(1))
		case 2:
			return F(0)
		}
		return F(float64(g.r.Intn(2000)-1000) / 4)
	}
	nser := int(g.pickI(0, 1, 1, 2, 3, 5, 12))
	for k := 0; k < nser; k++ {
		var s RemSer
		if rc.Vector {
			s.Ts, s.Vals = []int64{c.Start}, []F{val()}
		} else {
			mode := g.r.Intn(5)
			lo, hi := 0, nsteps
			if mode == 1 {
				lo = g.r.Intn(nsteps)
			}
			if mode == 2 {
				hi = g.r.Intn(nsteps + 1)
			}
			for j := lo; j < hi; j++ {
				if mode == 3 && g.chance(0.5) {
					continue
				}
				if mode == 4 && !g.chance(0.15) {
					continue
				}
				s.Ts = append(s.Ts, c.Start+int64(j)*c.Step)
				s.Vals = append(s.Vals, val())
			}
			if len(s.Ts) == 0 && !g.chance(0.1) {
				s.Ts, s.Vals = []int64{c.Start + int64(g.r.Intn(nsteps))*c.Step}, []F{val()}
			}
		}
		rc.Series = append(rc.Series, s)
	}
	c.KRem = rc
	return c
}
