package main

// Kernel-level correspondence for Slices.lean: the Lean model of Go slices (window into a backing
// array; append in place when the capacity suffices, into a new array otherwise; capacity-capped
// slices; copies) against real Go slices, on random heaps, windows and operation sequences. What is
// compared is what every watched slice reads afterwards - the aliasing effects included.

import (
	"fmt"
	"strconv"
	"strings"
)

// SliceCase: arrays, watched slices (arr, off, len, cap counted from off) and operations
// a:k:xs (append to watcher k), c:k:xs (append through a capacity-capped watcher k), y:k (copy)
type SliceCase struct {
	Heap     [][]int  `json:"heap"`
	Watchers [][4]int `json:"watchers"`
	Ops      []string `json:"ops"`
}

func (g *Gen) sliceCase(i int) *Case {
	c := &Case{ID: fmt.Sprintf("kslice-%d", i), Profile: "kslice", Query: "kernel:slices"}
	sc := &SliceCase{}
	na := 1 + g.r.Intn(3)
	next := 1
	for a := 0; a < na; a++ {
		n := 2 + g.r.Intn(7)
		arr := make([]int, n)
		for k := range arr {
			arr[k] = next
			next++
		}
		sc.Heap = append(sc.Heap, arr)
	}
	nw := 2 + g.r.Intn(4)
	for w := 0; w < nw; w++ {
		a := g.r.Intn(na)
		n := len(sc.Heap[a])
		off := g.r.Intn(n)
		ln := g.r.Intn(n - off + 1)
		cp := ln + g.r.Intn(n-off-ln+1)
		if g.chance(0.3) {
			cp = ln
		}
		sc.Watchers = append(sc.Watchers, [4]int{a, off, ln, cp})
	}
	nops := 1 + g.r.Intn(5)
	for o := 0; o < nops; o++ {
		k := g.r.Intn(nw)
		switch g.r.Intn(5) {
		case 0:
			sc.Ops = append(sc.Ops, fmt.Sprintf("y:%d", k))
		case 1, 2:
			sc.Ops = append(sc.Ops, fmt.Sprintf("c:%d:%s", k, g.sliceElems(&next)))
		default:
			sc.Ops = append(sc.Ops, fmt.Sprintf("a:%d:%s", k, g.sliceElems(&next)))
		}
	}
	c.KSl = sc
	return c
}

func (g *Gen) sliceElems(next *int) string {
	n := g.r.Intn(4)
	if n == 0 {
		return "-"
	}
	var xs []string
	for i := 0; i < n; i++ {
		xs = append(xs, strconv.Itoa(100+*next))
		*next++
	}
	return strings.Join(xs, ",")
}

func intsCSV(xs []int) string {
	if len(xs) == 0 {
		return "-"
	}
	s := make([]string, len(xs))
	for i, x := range xs {
		s[i] = strconv.Itoa(x)
	}
	return strings.Join(s, ",")
}

func sliceKernel(c *Case, lean *LeanDriver) Verdict {
	v := Verdict{ID: c.ID, Query: c.Query, Oracle: "kernel", Native: true, NonTriv: true}
	sc := c.KSl
	if sc == nil {
		v.Skipped = "empty kernel case"
		return v
	}
	// the real thing
	heap := make([][]int, len(sc.Heap))
	for i, a := range sc.Heap {
		heap[i] = append([]int(nil), a...)
	}
	ws := make([][]int, len(sc.Watchers))
	for i, w := range sc.Watchers {
		ws[i] = heap[w[0]][w[1] : w[1]+w[2] : w[1]+w[3]]
	}
	for _, op := range sc.Ops {
		p := strings.Split(op, ":")
		k, _ := strconv.Atoi(p[1])
		var xs []int
		if len(p) > 2 && p[2] != "-" {
			for _, s := range strings.Split(p[2], ",") {
				x, _ := strconv.Atoi(s)
				xs = append(xs, x)
			}
		}
		switch p[0] {
		case "a":
			ws[k] = append(ws[k], xs...)
		case "c":
			ws[k] = append(ws[k][:len(ws[k]):len(ws[k])], xs...)
		case "y":
			ws[k] = append([]int(nil), ws[k]...)
		}
	}
	var real []string
	for _, w := range ws {
		real = append(real, intsCSV(w))
	}
	// the model
	var hs, wstr []string
	for _, a := range sc.Heap {
		hs = append(hs, intsCSV(a))
	}
	for _, w := range sc.Watchers {
		wstr = append(wstr, fmt.Sprintf("%d:%d:%d:%d", w[0], w[1], w[2], w[3]))
	}
	line := fmt.Sprintf("kernel slices %s %s %s", strings.Join(hs, ";"), strings.Join(wstr, ";"), strings.Join(sc.Ops, ";"))
	ans, err := lean.Ask([]string{"case " + c.ID, line, "end"})
	if err != nil {
		v.Other = "lean: " + err.Error()
		return v
	}
	got := ans["kernel"]
	want := strings.Join(real, "|")
	if got != want {
		v.EngVsModel = fmt.Sprintf("slices: Go %s vs model %s (heap %v watchers %v ops %v)", want, got, sc.Heap, sc.Watchers, sc.Ops)
	}
	v.Features = []string{"kernel:slices"}
	return v
}
