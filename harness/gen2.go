package main

// Enumerating and special-purpose generators: the PromQL vocabulary in every position (C08),
// the matcher alphabet (C09), partitions (C10), query sequences (C12, C20), extremes (C13, C19).

import (
	"fmt"
	"math"
	"sort"
	"strings"

	"github.com/prometheus/prometheus/promql/parser"
)

func argFor(t parser.ValueType) string {
	switch t {
	case parser.ValueTypeVector:
		return "m"
	case parser.ValueTypeMatrix:
		return "m[1m]"
	case parser.ValueTypeScalar:
		return "1"
	case parser.ValueTypeString:
		return `"x"`
	}
	return "m"
}

type construct struct {
	text string
	typ  parser.ValueType
	name string
}

func vocabulary() []construct {
	var out []construct
	var names []string
	for n := range parser.Functions {
		names = append(names, n)
	}
	sort.Strings(names)
	for _, n := range names {
		f := parser.Functions[n]
		nargs := len(f.ArgTypes)
		var forms [][]string
		full := make([]string, 0, nargs)
		for _, t := range f.ArgTypes {
			full = append(full, argFor(t))
		}
		forms = append(forms, full)
		if f.Variadic != 0 && nargs > 0 {
			forms = append(forms, full[:nargs-1])
		}
		for i, a := range forms {
			out = append(out, construct{text: fmt.Sprintf("%s(%s)", n, strings.Join(a, ", ")), typ: f.ReturnType, name: fmt.Sprintf("fn:%s/%d", n, i)})
		}
	}
	for _, op := range []string{"sum", "avg", "count", "min", "max", "group", "stddev", "stdvar"} {
		out = append(out, construct{fmt.Sprintf("%s by (a) (m)", op), parser.ValueTypeVector, "agg:" + op})
		out = append(out, construct{fmt.Sprintf("%s without (a) (m)", op), parser.ValueTypeVector, "agg:" + op + ":without"})
		out = append(out, construct{fmt.Sprintf("%s(m)", op), parser.ValueTypeVector, "agg:" + op + ":all"})
	}
	out = append(out,
		construct{"topk(1, m)", parser.ValueTypeVector, "agg:topk"},
		construct{"bottomk by (a) (2, m)", parser.ValueTypeVector, "agg:bottomk"},
		construct{"quantile(0.5, m)", parser.ValueTypeVector, "agg:quantile"},
		construct{`count_values("v", m)`, parser.ValueTypeVector, "agg:count_values"},
	)
	for _, op := range []string{"+", "-", "*", "/", "%", "^", "atan2", "==", "!=", ">", "<", ">=", "<="} {
		out = append(out, construct{fmt.Sprintf("m %s n", op), parser.ValueTypeVector, "bin:" + op})
		out = append(out, construct{fmt.Sprintf("m %s 2", op), parser.ValueTypeVector, "bin:" + op + ":vs"})
		if strings.ContainsAny(op, "=<>!") {
			out = append(out, construct{fmt.Sprintf("m %s bool n", op), parser.ValueTypeVector, "bin:" + op + ":bool"})
			out = append(out, construct{fmt.Sprintf("1 %s bool 2", op), parser.ValueTypeScalar, "bin:" + op + ":ss"})
		} else {
			out = append(out, construct{fmt.Sprintf("1 %s 2", op), parser.ValueTypeScalar, "bin:" + op + ":ss"})
		}
	}
	out = append(out,
		construct{"m and n", parser.ValueTypeVector, "set:and"},
		construct{"m or n", parser.ValueTypeVector, "set:or"},
		construct{"m unless n", parser.ValueTypeVector, "set:unless"},
		construct{"m and on (a) n", parser.ValueTypeVector, "set:and:on"},
		construct{"m + on (a) n", parser.ValueTypeVector, "mod:on"},
		construct{"m + ignoring (a) n", parser.ValueTypeVector, "mod:ignoring"},
		construct{"m + on (a) group_left n", parser.ValueTypeVector, "mod:group_left"},
		construct{"m + on (a) group_right (b) n", parser.ValueTypeVector, "mod:group_right"},
		construct{"m[1m:10s]", parser.ValueTypeMatrix, "subquery"},
		construct{"rate(m[1m])[2m:30s]", parser.ValueTypeMatrix, "subquery:fn"},
		construct{"m[1m]", parser.ValueTypeMatrix, "matrix"},
		construct{"m[1m] offset 30s", parser.ValueTypeMatrix, "matrix:offset"},
		construct{`"hello"`, parser.ValueTypeString, "string"},
		construct{"m offset 30s", parser.ValueTypeVector, "offset"},
		construct{"m offset -30s", parser.ValueTypeVector, "offset:neg"},
		construct{"m @ 100", parser.ValueTypeVector, "at"},
		construct{"m @ start()", parser.ValueTypeVector, "at:start"},
		construct{"m @ end()", parser.ValueTypeVector, "at:end"},
		construct{"42", parser.ValueTypeScalar, "number"},
		construct{`{__name__=~"m|n"}`, parser.ValueTypeVector, "selector:regex-name"},
	)
	return out
}

func positionsFor(c construct) []string {
	x := c.text
	switch c.typ {
	case parser.ValueTypeVector:
		return []string{x, "abs(" + x + ")", "sum(" + x + ")", "topk(100, " + x + ")", "(" + x + ") + m", "m + (" + x + ")",
			"(" + x + ") * 2", "-(" + x + ")", "(" + x + ")", "clamp_min(" + x + ", 1)", "topk(scalar(" + x + "), m)",
			"quantile(scalar(" + x + "), m)", "sum by (a) (rate(m[1m])) + (" + x + ")", "timestamp(" + x + ")",
			"histogram_quantile(0.9, " + x + ")",
			// ... and as the source of a scalar argument, next to a vector argument that is fine
			"histogram_quantile(scalar(" + x + "), m)", "clamp_min(m, scalar(" + x + "))", "clamp_max(m, scalar(" + x + "))",
			"clamp(m, scalar(" + x + "), 5)", "clamp(m, 0, scalar(" + x + "))", "scalar(" + x + ") + m", "m > scalar(" + x + ")"}
	case parser.ValueTypeScalar:
		return []string{x, "vector(" + x + ")", "m + (" + x + ")", "(" + x + ") + m", "clamp_min(m, " + x + ")", "topk(" + x + ", m)",
			"-(" + x + ")", "(" + x + ")", "(" + x + ") + 1", "quantile(" + x + ", m)",
			"histogram_quantile(" + x + ", m)", "clamp_max(m, " + x + ")", "clamp(m, " + x + ", 5)", "clamp(m, 0, " + x + ")"}
	case parser.ValueTypeMatrix:
		return []string{x, "rate(" + x + ")", "sum_over_time(" + x + ")", "sum(max_over_time(" + x + "))", "(" + x + ")",
			"quantile_over_time(0.5, " + x + ")", "rate(" + x + ") + m"}
	case parser.ValueTypeString:
		return []string{x, "(" + x + ")", `label_replace(m, "a", ` + x + `, "b", "")`}
	}
	return []string{x}
}

func smallData(names ...string) []SeriesJ {
	var out []SeriesJ
	for _, n := range names {
		for _, a := range []string{"", "x", "y"} {
			for _, b := range []string{"", "x", "y"} {
				ls := [][2]string{{"__name__", n}}
				if a != "" {
					ls = append(ls, [2]string{"a", a})
				}
				if b != "" {
					ls = append(ls, [2]string{"b", b})
				}
				s := SeriesJ{Labels: ls}
				uniq := float64(len(out)+1) * 0.37 // pairwise distinct values: no topk ties
				for t := int64(0); t <= 600000; t += 30000 {
					s.Samples = append(s.Samples, SampleJ{T: t, V: F(float64(t/30000)*float64(len(out)%5+1) + uniq)})
				}
				out = append(out, s)
			}
		}
	}
	return out
}

// fallbackCases enumerates the vocabulary x positions x {instant, range}.
func fallbackCases() []*Case {
	var out []*Case
	data := smallData("m", "n")
	i := 0
	for _, c := range vocabulary() {
		for pi, q := range positionsFor(c) {
			if _, err := parser.ParseExpr(q); err != nil {
				continue
			}
			for _, rng := range []bool{false, true} {
				cs := &Case{ID: fmt.Sprintf("fallback-%d", i), Profile: "fallback", Query: q, Series: data, Start: 300000, End: 300000,
					Lookback: 300000, Procs: 4, Tags: []string{c.name, fmt.Sprintf("pos%d", pi)}}
				if rng {
					cs.End = 540000
					cs.Step = 20000
				}
				out = append(out, cs)
				i++
			}
		}
	}
	return out
}

// ---------------------------------------------------------------------------------------------
// C09: matcher alphabet

func matcherAlphabet() []string {
	var out []string
	for _, k := range []string{"a", "b"} {
		for _, t := range []string{"=", "!=", "=~", "!~"} {
			for _, v := range []string{"x", "", "x|y"} {
				out = append(out, fmt.Sprintf(`%s%s"%s"`, k, t, v))
			}
		}
	}
	return out
}

var optTemplates = []string{
	"%s + %s", "%s / on (a) %s", "sum(%s) / sum(%s)", "abs(%s) + %s", "rate(%s[1m]) + %s", "%s * ignoring (b) group_left %s",
	"max_over_time(%s[30s]) - %s", "%s", "sum by (a) (%s) + sum by (a) (%s)", "clamp_min(%s, 1) / %s",
	"%s - on (b) group_right %s", "-%s + %s", "(%s) == (%s)", "%s > bool %s", "count(%s) + count(%s) + count(%s)",
	"sum(%s) + sum(%s) / sum(%s)", "histogram_quantile(0.5, %s) + %s", "topk(2, %s) / %s",
	// a selector that is both an operand of a propagating binary operator and the broader select
	// of a merge: the two optimizers then work on one matcher slice
	"sum(%s + %s) + sum(%s)", "(%s * %s) / sum(%s)", "count(%s - %s) + count(%s) + count(%s)", "sum(%s) + sum(%s + %s)",
}

func (g *Gen) alphaSelector(metric string) string {
	al := matcherAlphabet()
	n := g.r.Intn(3)
	var ms []string
	for i := 0; i < n; i++ {
		ms = append(ms, al[g.r.Intn(len(al))])
	}
	if g.chance(0.15) {
		ms = append(ms, fmt.Sprintf(`__name__="%s"`, metric))
		g.r.Shuffle(len(ms), func(i, j int) { ms[i], ms[j] = ms[j], ms[i] })
		return "{" + strings.Join(ms, ",") + "}"
	}
	if len(ms) == 0 {
		return metric
	}
	return metric + "{" + strings.Join(ms, ",") + "}"
}

func (g *Gen) optCase(i int) *Case {
	c := &Case{ID: fmt.Sprintf("optx-%d", i), Profile: "optx", Series: smallData("m", "n"), Lookback: 300000, Procs: int(g.pickI(1, 2, 4, 8)), Opt: "none"}
	t := optTemplates[g.r.Intn(len(optTemplates))]
	n := strings.Count(t, "%s")
	args := make([]any, n)
	same := g.chance(0.6)
	for k := range args {
		metric := "m"
		if !same && k%2 == 1 {
			metric = "n"
		}
		s := g.alphaSelector(metric)
		if g.chance(0.1) && !strings.Contains(t, "[") {
			s += " offset 30s"
		}
		args[k] = s
	}
	if g.chance(0.2) {
		// a narrower twin of one operand (same matchers plus one), next to an operand of the other
		// metric that carries a matcher: both selector-rewriting optimizers apply to one selector,
		// whose matcher slice (two label matchers and the name: length 3, capacity 4) has room
		t = g.pick("sum(%s + %s) + sum(%s)", "(%s * %s) / sum(%s)", "sum(%s) + sum(%s + %s)", "count(%s - %s) + count(%s)")
		al := matcherAlphabet()
		fa := []string{`a="x"`, `a=~"x|y"`, `a!=""`, `a!="y"`}
		fb := []string{`b="y"`, `b=~"x|y"`, `b!=""`, `b!="x"`}
		wide := "m{" + fa[g.r.Intn(len(fa))] + "," + fb[g.r.Intn(len(fb))] + "}"
		narrow := wide[:len(wide)-1] + "," + al[g.r.Intn(len(al))] + "}"
		other := "n{" + append(fa, fb...)[g.r.Intn(8)] + "}"
		if strings.HasPrefix(t, "sum(%s) + sum(") {
			args = []any{narrow, wide, other}
		} else {
			args = []any{wide, other, narrow}
		}
	}
	if n >= 2 && g.chance(0.08) {
		// a selector that excludes a metric by name next to one that selects it: the two have
		// nothing in common but the matcher value
		al := matcherAlphabet()
		args[0] = fmt.Sprintf(`{__name__%s"m",%s}`, g.pick("!=", "!~"), al[g.r.Intn(len(al))])
		args[1] = g.pick("m", "m", "m{"+al[g.r.Intn(len(al))]+"}")
	}
	c.Query = fmt.Sprintf(t, args...)
	c.Start = 300000
	if g.chance(0.5) {
		c.End = 300000
	} else {
		c.End = 300000 + int64(1+g.r.Intn(14))*20000
		c.Step = 20000
	}
	return c
}

// ---------------------------------------------------------------------------------------------
// C10: partitions

func (g *Gen) distCase(i int) *Case {
	g.prof = "mixed"
	g.maxSeries = 12
	c := g.Case(i)
	g.prof = "dist"
	c.ID = fmt.Sprintf("dist-%d", i)
	c.Profile = "dist"
	// bias towards distributable aggregations in various positions
	if g.chance(0.6) {
		inner := g.vectorExpr(c, 1)
		if g.chance(0.15) {
			// a remote part that only the fallback of the remote engines can answer
			inner = g.pick("sgn", "round", "sort") + "(" + g.selectorCore(g.metric()) + ")"
		}
		agg := g.pick("sum", "min", "max", "count", "group", "avg", "topk", "stddev")
		grp := g.grouping()
		var a string
		if agg == "topk" {
			a = fmt.Sprintf("topk%s (%s, %s)", grp, g.pick("1", "2", "3"), inner)
		} else {
			a = fmt.Sprintf("%s%s (%s)", agg, grp, inner)
		}
		switch g.r.Intn(7) {
		case 0:
			c.Query = a
		case 1:
			c.Query = "max by (a) (" + a + ")"
		case 2:
			c.Query = "clamp_min(" + a + ", 1)"
		case 3:
			c.Query = a + " / " + fmt.Sprintf("%s%s (%s)", g.pick("sum", "count", "max"), g.grouping(), g.vectorExpr(c, 0))
		case 4:
			c.Query = "-" + a
		case 5:
			// the same aggregation nested (count of count must not collapse)
			c.Query = fmt.Sprintf("%s%s (%s)", agg, g.grouping(), a)
			if agg == "topk" || agg == "stddev" || agg == "avg" {
				c.Query = "sum(" + a + ")"
			}
		default:
			c.Query = "abs(" + a + ") + 1"
		}
		c.Series = nil
		g.dataset(c, extractRanges(c.Query), strings.Contains(c.Query, "h_bucket"))
	}
	np := 1 + g.r.Intn(4)
	c.Parts = make([][]int, np)
	for s := range c.Series {
		p := g.r.Intn(np)
		c.Parts[p] = append(c.Parts[p], s)
	}
	return c
}

// ---------------------------------------------------------------------------------------------
// C12 / C20: several queries on one engine

func (g *Gen) multiCase(i int, prof string) *Case {
	g.prof = "mixed"
	c := g.Case(i)
	g.prof = prof
	c.ID = fmt.Sprintf("%s-%d", prof, i)
	c.Profile = prof
	n := 2 + g.r.Intn(5)
	qs := []string{c.Query}
	for k := 1; k < n; k++ {
		switch g.r.Intn(6) {
		case 0:
			qs = append(qs, qs[g.r.Intn(len(qs))]) // repeated
		case 1:
			qs = append(qs, g.pick("m and n", "sort(m)", "count_values(\"v\", m)", "m[1m:10s]")) // fallback / failing
		case 2:
			qs = append(qs, "m + on (a) n") // may fail with many-to-many
		default:
			qs = append(qs, g.vectorExpr(c, g.r.Intn(3)))
		}
	}
	c.Query = strings.Join(qs, ";;")
	if c.Instant() && prof == "sequence" && g.chance(0.5) {
		c.Step = 15000
		c.End = c.Start + 15000*int64(5+g.r.Intn(20))
	}
	return c
}

// ---------------------------------------------------------------------------------------------
// C13 / C19: extreme parameters, degenerate data, value domains outside the comparison-safe range

func (g *Gen) extremeCase(i int) *Case {
	g.prof = "mixed"
	c := g.Case(i)
	g.prof = "extreme"
	c.ID = fmt.Sprintf("extreme-%d", i)
	c.Profile = "extreme"
	sel := g.selector(c)
	k := g.pick("0", "-1", "NaN", "Inf", "-Inf", "1e30", "-1e30", "9.3e18", "0.5", "1", "scalar(m)", "scalar(m)*1e19", "time()*1e300*1e300")
	switch g.r.Intn(12) {
	case 0:
		c.Query = fmt.Sprintf("%s%s (%s, %s)", g.pick("topk", "bottomk"), g.grouping(), k, sel)
	case 1:
		c.Query = fmt.Sprintf("quantile%s (%s, %s)", g.grouping(), k, sel)
	case 2:
		c.Query = fmt.Sprintf("sum(%s (%s, %s))", g.pick("topk", "bottomk"), k, sel)
	case 3:
		c.Query = fmt.Sprintf("-%s%s (%s, %s)", g.pick("topk", "bottomk"), g.grouping(), k, sel)
	case 4:
		c.Query = fmt.Sprintf("%s(-%s)", g.pick("sum", "max", "count", "avg"), sel)
	case 5:
		c.Query = fmt.Sprintf("histogram_quantile(%s, %s)", k, g.pick("h_bucket", sel, "sum by (le) (h_bucket)"))
	case 6:
		c.Query = fmt.Sprintf("clamp(%s, %s, %s)", sel, k, k)
	case 7:
		c.Query = fmt.Sprintf("abs(%s by (a) (%s, %s)) * 2", g.pick("topk", "bottomk"), g.pick("1", "2"), sel)
	case 8:
		c.Query = fmt.Sprintf("%s + on (a) group_left (b) %s by (a) (1, %s)", sel, g.pick("topk", "bottomk"), sel)
	case 9:
		c.Query = fmt.Sprintf("%s ^ %s", sel, g.pick("1e3", "-1e3", "0.5", "NaN"))
	case 10:
		c.Query = fmt.Sprintf("vector(%s) + %s", k, sel)
	default:
		c.Query = fmt.Sprintf("scalar(%s) %s %s", sel, g.pick("+", "/", "%", ">= bool"), k)
	}
	// degenerate / out-of-range data
	switch g.r.Intn(6) {
	case 0:
		c.Series = nil
	case 1:
		for si := range c.Series {
			c.Series[si].Samples = nil
		}
	case 2:
		for si := range c.Series {
			if len(c.Series[si].Samples) > 1 {
				c.Series[si].Samples = c.Series[si].Samples[:1]
			}
		}
	case 3:
		for si := range c.Series {
			for pi := range c.Series[si].Samples {
				c.Series[si].Samples[pi].V = F(math.NaN())
			}
		}
	case 4:
		vals := []float64{1e308, -1e308, 5e-324, 1e-310, math.MaxFloat64, math.Inf(1), math.Inf(-1)}
		for si := range c.Series {
			for pi := range c.Series[si].Samples {
				if g.chance(0.5) {
					c.Series[si].Samples[pi].V = F(vals[g.r.Intn(len(vals))])
				}
			}
		}
	}
	return c
}

// dnestCase: an aggregation directly below the same aggregation (count of count, topk of topk,
// ...), with the series dealt out to the partitions one by one so that the inner groups are split
// across remote engines: the shape for which pushing the outer aggregation down as a whole is wrong.
func (g *Gen) dnestCase(i int) *Case {
	g.prof = "mixed"
	g.maxSeries = 12
	c := g.Case(i)
	g.prof = "dnest"
	c.ID = fmt.Sprintf("dnest-%d", i)
	c.Profile = "dnest"
	op := g.pick("count", "count", "count", "topk", "bottomk", "sum", "max", "min", "group")
	innerGrp := g.pick(" by (a)", " by (b)", " by (c)", " by (a,b)", " without (a)", " without (b,c)", " by (a,c)")
	sel := g.pick("m", "m", "m", `{__name__=~"m|n"}`, "last_over_time(m[60s])", "abs(m)", "n")
	agg := func(grp, arg string) string {
		if op == "topk" || op == "bottomk" {
			return fmt.Sprintf("%s%s (%s, %s)", op, grp, g.pick("1", "2", "3"), arg)
		}
		return fmt.Sprintf("%s%s (%s)", op, grp, arg)
	}
	q := agg(g.grouping(), agg(innerGrp, sel))
	if g.chance(0.3) {
		// one aggregation whose groups are split across the engines: the local re-aggregation must
		// group exactly as the remote ones did
		q = agg(innerGrp, sel)
	}
	switch g.r.Intn(5) {
	case 0:
		q = "1 + " + q
	case 1:
		q = "-" + q
	case 2:
		q = "abs(" + q + ")"
	}
	c.Query = q
	c.Series = nil
	g.dataset(c, extractRanges(c.Query), false)
	np := 2 + g.r.Intn(3)
	c.Parts = make([][]int, np)
	perm := g.r.Perm(len(c.Series))
	for k, s := range perm {
		c.Parts[k%np] = append(c.Parts[k%np], s)
	}
	return c
}

// inclCase: a many-to-one match between two plain selectors with include labels. The label sets
// of the "many" side are then the very slices the storage handed out (no function in between
// copies them) and the include labels are added to them: the shape in which an in-place append
// writes into storage-owned memory.
func (g *Gen) inclCase(i int) *Case {
	g.prof = "binary"
	g.maxSeries = 10
	c := g.Case(i)
	g.prof = "incl"
	c.ID = fmt.Sprintf("incl-%d", i)
	c.Profile = "incl"
	op := g.pick("==", "!=", ">", "<", ">=", "<=", "atan2", "atan2", "+", "*", "> bool")
	pool := []string{"a", "b", "c"}
	g.r.Shuffle(len(pool), func(i, j int) { pool[i], pool[j] = pool[j], pool[i] })
	k := g.r.Intn(3)
	kind := g.pick("on", "ignoring")
	mt := kind + " (" + strings.Join(pool[:k], ",") + ")"
	rest := pool[k:] // `on` labels may not be included again
	if kind == "ignoring" {
		rest = pool
	}
	incl := strings.Join(rest[:1+g.r.Intn(len(rest))], ",")
	lhs, rhs := g.selectorCore(g.metric()), g.selectorCore(g.metric())
	if g.chance(0.2) {
		lhs += g.modifiers(c)
	}
	if g.chance(0.2) {
		rhs += g.modifiers(c)
	}
	c.Query = fmt.Sprintf("%s %s %s %s (%s) %s", lhs, op, mt, g.pick("group_left", "group_right"), incl, rhs)
	if g.chance(0.15) {
		c.Query = "(" + c.Query + ") " + g.pick("+ 1", "* 2", "> 0")
	}
	c.Series = nil
	g.dataset(c, extractRanges(c.Query), false)
	return c
}

// lateCase: a vector that is empty for whole batches (its series start late, end early or have a
// gap of more than ten steps) next to scalar operands that change from step to step (time(),
// scalar(v)): operators that pair the vector stream with scalar streams batch by batch must keep
// them aligned across batches in which one side has nothing.
func (g *Gen) lateCase(i int) *Case {
	g.prof = "func"
	g.maxSeries = 8
	c := g.Case(i)
	g.prof = "late"
	c.ID = fmt.Sprintf("late-%d", i)
	c.Profile = "late"
	c.Step = g.pickI(15000, 30000, 60000)
	steps := int64(22 + g.r.Intn(25))
	c.End = c.Start + (steps-1)*c.Step
	g.step = c.Step
	v := g.pick("m", "m", "n", `m{a!="x"}`, "abs(m)", "-m")
	if g.chance(0.3) {
		// a pinned (step-invariant, evaluated once and cached) vector next to a moving scalar: the
		// cached vector must not be written by whoever consumes it
		v = fmt.Sprintf("%s @ %d.000", g.pick("m", "n", `m{a!="x"}`), (c.Start+int64(g.r.Intn(12))*c.Step)/1000)
		if g.chance(0.3) {
			v += " offset " + durStr(g.pickI(5000, 30000))
		}
	}
	sc := func() string {
		return g.pick("time()", "time() / 2", "scalar(n)", "scalar(m)", "time() - 1.7e9", "scalar(n) + time()", "scalar(count(n))")
	}
	switch g.r.Intn(8) {
	case 0:
		c.Query = fmt.Sprintf("clamp_min(%s, %s)", v, sc())
	case 1:
		c.Query = fmt.Sprintf("clamp_max(%s, %s)", v, sc())
	case 2:
		c.Query = fmt.Sprintf("clamp(%s, %s, %s)", v, sc(), sc())
	case 3:
		c.Query = fmt.Sprintf("%s %s %s", v, g.pick("+", "-", "*", ">", "< bool", "/"), sc())
	case 4:
		c.Query = fmt.Sprintf("%s %s %s", sc(), g.pick("+", "-", "*", ">", "<= bool", "%"), v)
	case 5:
		c.Query = fmt.Sprintf("quantile(%s, %s)", g.pick("scalar(n) / 100", "time() / 1e10", "scalar(m) / 50"), v)
	case 6:
		c.Query = fmt.Sprintf("histogram_quantile(%s, h_bucket)", g.pick("scalar(n) / 100", "time() / 1e10"))
	default:
		c.Query = fmt.Sprintf("%s(%s, %s) %s %s", g.pick("clamp_min", "clamp_max"), v, sc(), g.pick("+", "*", "-"), sc())
	}
	c.Series = nil
	g.dataset(c, extractRanges(c.Query), strings.Contains(c.Query, "h_bucket"))
	// carve the emptiness into the metric of the vector operand (m or h_bucket): everything before
	// a cut, after a cut, or between two cuts that are more than ten steps apart
	lo := c.Start + (10+int64(g.r.Intn(8)))*c.Step - c.Step/2
	hi := c.End + c.Step
	mode := g.r.Intn(3)
	if mode == 1 {
		lo, hi = c.Start-3600000, c.Start+(int64(2+g.r.Intn(8)))*c.Step
	}
	gapLo, gapHi := int64(0), int64(0)
	if mode == 2 {
		lo = c.Start - 3600000
		gapLo = c.Start + int64(1+g.r.Intn(6))*c.Step
		gapHi = gapLo + (11+int64(g.r.Intn(8)))*c.Step
	}
	target := "m"
	if strings.Contains(c.Query, "h_bucket") {
		target = "h_bucket"
	} else if strings.HasPrefix(v, "n") {
		target = "n"
	}
	for k := range c.Series {
		if len(c.Series[k].Labels) == 0 || c.Series[k].Labels[0][0] != "__name__" && c.Series[k].Labels[len(c.Series[k].Labels)-1][0] != "__name__" {
			// the name label sorts among the others; look it up
		}
		name := ""
		for _, l := range c.Series[k].Labels {
			if l[0] == "__name__" {
				name = l[1]
			}
		}
		if name != target {
			continue
		}
		var kept []SampleJ
		for _, sm := range c.Series[k].Samples {
			if sm.T < lo || sm.T > hi || (gapHi > 0 && sm.T > gapLo && sm.T < gapHi) {
				continue
			}
			kept = append(kept, sm)
		}
		c.Series[k].Samples = kept
	}
	return c
}

// dfuncCase enumerates every PromQL function of the parser's table (natively supported or not -
// the distributed optimizer sees them all) with arguments of the declared types, in several
// positions of a larger expression. Used with the plan-level `distplan` oracle only.
func (g *Gen) dfuncCase(i int) *Case {
	g.prof = "mixed"
	g.maxSeries = 6
	c := g.Case(i)
	g.prof = "dfunc"
	c.ID = fmt.Sprintf("dfunc-%d", i)
	c.Profile = "dfunc"
	names := make([]string, 0, len(parser.Functions))
	for n := range parser.Functions {
		names = append(names, n)
	}
	sort.Strings(names)
	contexts := []string{"%s", "sum(%s)", "sum by (a) (%s)", "count without (b) (%s)", "abs(%s)", "%s + m", "-%s", "(%s)",
		"topk(2, %s)", "max(%s) / min(m)", "clamp_min(%s, 1)", "sum(rate(m[5m])) > scalar(%s)"}
	fn := parser.Functions[names[i%len(names)]]
	variant := (i / len(names)) % 2
	ctx := contexts[(i/(2*len(names)))%len(contexts)]
	var args []string
	for _, t := range fn.ArgTypes {
		switch t {
		case parser.ValueTypeVector:
			args = append(args, g.pick("m", "m", "n{a!=\"\"}", "m offset 1m"))
		case parser.ValueTypeMatrix:
			args = append(args, g.pick("m[5m]", "m[1m]", "n[5m] offset 30s"))
		case parser.ValueTypeScalar:
			if variant == 0 {
				args = append(args, g.pick("1", "0.5", "2"))
			} else {
				args = append(args, g.pick("scalar(n)", "time()", "(1)"))
			}
		case parser.ValueTypeString:
			args = append(args, `"x"`)
		}
	}
	if fn.Variadic != 0 && variant == 1 && len(args) > 0 {
		// the optional arguments left out
		min := len(fn.ArgTypes) - 1
		if fn.Variadic > 0 {
			min = len(fn.ArgTypes) - fn.Variadic
		}
		if min < 0 {
			min = 0
		}
		args = args[:min]
	}
	c.Query = fmt.Sprintf(ctx, fn.Name+"("+strings.Join(args, ", ")+")")
	np := 1 + i%4
	c.Parts = make([][]int, np)
	for s := range c.Series {
		c.Parts[s%np] = append(c.Parts[s%np], s)
	}
	return c
}
