package main

// Runtime oracles (T4): storage faults, injected panics (child process), cancellation,
// querier lifecycle and label ownership, concurrency, query sequences, operator contract.

import (
	"bytes"
	"context"
	"encoding/json"
	"errors"
	"fmt"
	"math/rand"
	"os"
	"os/exec"
	"runtime"
	"sort"
	"strings"
	"sync"
	"sync/atomic"
	"time"

	"github.com/prometheus/prometheus/model/labels"
	"github.com/prometheus/prometheus/promql"
	"github.com/prometheus/prometheus/storage"

	"github.com/thanos-community/promql-engine/api"
	"github.com/thanos-community/promql-engine/engine"
)

var errInjected = errors.New("injected storage fault")

var errorCapable = map[string]bool{EvQuerier: true, EvSelect: true, EvSetNext: true, EvSetErr: true, EvSeek: true, EvNext: true, EvItErr: true}

// countEvents runs the case once and returns the kinds of the storage events it produced.
func countEvents(c *Case) (kinds []string, res Result) {
	st := NewMemStorage(c.Data())
	var mu sync.Mutex
	st.SetHook(func(kind string, n int64, info any) Action {
		mu.Lock()
		kinds = append(kinds, kind)
		mu.Unlock()
		return Action{}
	})
	res = execThanos(c, st)
	return kinds, res
}

// positions picks the event indices to attack: all when few, otherwise the first ones, the
// last ones and a spread in between.
func positions(n, budget int, r *rand.Rand) []int {
	if n <= budget {
		out := make([]int, n)
		for i := range out {
			out[i] = i + 1
		}
		return out
	}
	set := map[int]bool{}
	for i := 1; i <= budget/4; i++ {
		set[i] = true
		set[n+1-i] = true
	}
	for len(set) < budget {
		set[1+r.Intn(n)] = true
	}
	var out []int
	for k := range set {
		out = append(out, k)
	}
	sort.Ints(out)
	return out
}

func tierBudget() int {
	if os.Getenv("VERIF_TIER") == "thorough" {
		return 120
	}
	return 24
}

func lifecycleComplaint(st *MemStorage) string {
	st.mu.Lock()
	defer st.mu.Unlock()
	if st.DoubleClose > 0 {
		return fmt.Sprintf("a querier was closed %d extra times", st.DoubleClose)
	}
	if st.OpenNow != 0 {
		return fmt.Sprintf("%d querier(s) still open when Exec returned (opened %d, closed %d)", st.OpenNow, st.Opens, st.Closes)
	}
	return ""
}

// ---------------------------------------------------------------------------------------------
// C15 (+C17a): storage failures surface as errors

func faultsCase(c *Case, lean *LeanDriver) Verdict {
	v := baseVerdict(c, "faults")
	kinds, clean := countEvents(c)
	if notNative(clean) {
		v.Skipped = "not-native"
		return v
	}
	v.NonTriv = len(kinds) > 0
	if _, q, err := leanInfo(c, lean); err == nil {
		v.Features = features(q)
	}
	r := rand.New(rand.NewSource(int64(len(kinds)) + c.Start))
	tried := 0
	for _, k := range positions(len(kinds), tierBudget(), r) {
		st := NewMemStorage(c.Data())
		var injected int32
		var injectedKind atomic.Value
		st.SetHook(func(kind string, n int64, info any) Action {
			if n >= int64(k) && errorCapable[kind] && atomic.CompareAndSwapInt32(&injected, 0, 1) {
				injectedKind.Store(kind)
				return Action{Err: errInjected}
			}
			return Action{}
		})
		res := execThanos(c, st)
		if atomic.LoadInt32(&injected) == 0 {
			continue
		}
		tried++
		ik, _ := injectedKind.Load().(string)
		if res.Kind != "err" {
			v.Other = fmt.Sprintf("storage failure at event %d (%s) but the query succeeded with %d series", k, ik, len(res.Series))
			return v
		}
		if !strings.Contains(res.Err, errInjected.Error()) && clean.Kind != "err" {
			v.Other = fmt.Sprintf("storage failure at event %d (%s): the error does not wrap the storage's error: %s", k, ik, trunc(res.Err))
			return v
		}
		if lc := lifecycleComplaint(st); lc != "" {
			v.Other = fmt.Sprintf("after a storage failure at event %d (%s): %s", k, ik, lc)
			return v
		}
	}
	// a lagging consumer: one select's iterators are slow, another select's iterator fails
	// late - its producer goroutine is then ahead of the consumer, with its buffer full
	if msg := laggingFaults(c, clean, r, false); msg != "" {
		v.Other = msg
		return v
	}
	if msg := slowSelectFaults(c, clean); msg != "" {
		v.Other = msg
		return v
	}
	v.Steps = tried
	return v
}

// slowSelectFaults: one Select fails at once while every other Select of the query is slow, so
// that the goroutines loading the other operands are still inside the storage when the failure
// reaches the root. Exec must not return before they have finished and closed their queriers.
func slowSelectFaults(c *Case, clean Result) string {
	dry := NewMemStorage(c.Data())
	execThanos(c, dry)
	nsel := len(dry.Selects)
	if nsel < 2 {
		return ""
	}
	for victim := int32(1); victim <= int32(nsel) && victim <= 3; victim++ {
		st := NewMemStorage(c.Data())
		var seen, injected int32
		victim := victim
		st.SetHook(func(kind string, n int64, info any) Action {
			if kind != EvSelect {
				return Action{}
			}
			if atomic.AddInt32(&seen, 1) == victim {
				atomic.StoreInt32(&injected, 1)
				return Action{Err: errInjected}
			}
			time.Sleep(3 * time.Millisecond)
			return Action{}
		})
		res := execThanos(c, st)
		if atomic.LoadInt32(&injected) == 0 {
			continue
		}
		if res.Kind != "err" {
			return fmt.Sprintf("select #%d failed while the other selects were slow, but the query succeeded with %d series", victim, len(res.Series))
		}
		if lc := lifecycleComplaint(st); lc != "" {
			return fmt.Sprintf("select #%d failed while the other selects were slow: %s", victim, lc)
		}
	}
	return ""
}

// laggingFaults runs the query with the iterators of one Select slowed down and a failure (or a
// panic value, recovered by the engine) in a late iterator event of another Select.
func laggingFaults(c *Case, clean Result, r *rand.Rand, panics bool) string {
	dry := NewMemStorage(c.Data())
	perSel := map[int]int{}
	var mu sync.Mutex
	dry.SetHook(func(kind string, n int64, info any) Action {
		if ii, ok := info.(ItInfo); ok {
			mu.Lock()
			perSel[ii.Sel]++
			mu.Unlock()
		}
		return Action{}
	})
	execThanos(c, dry)
	if len(perSel) < 2 {
		return ""
	}
	var sels []int
	for s := range perSel {
		sels = append(sels, s)
	}
	sort.Ints(sels)
	for attempt := 0; attempt < 3; attempt++ {
		victim := sels[r.Intn(len(sels))]
		total := perSel[victim]
		if total < 4 {
			continue
		}
		at := total/2 + r.Intn(total/2)
		st := NewMemStorage(c.Data())
		var seen, injected, slow int32
		// the lag is spread over the run: at most a few thousand sleeps however long the query
		events := 0
		for _, n := range perSel {
			events += n
		}
		every := int32(events/3000 + 1)
		st.SetHook(func(kind string, n int64, info any) Action {
			ii, ok := info.(ItInfo)
			if !ok {
				return Action{}
			}
			if ii.Sel != victim {
				if atomic.AddInt32(&slow, 1)%every == 0 {
					time.Sleep(150 * time.Microsecond)
				}
				return Action{}
			}
			if int(atomic.AddInt32(&seen, 1)) >= at && atomic.CompareAndSwapInt32(&injected, 0, 1) {
				if panics {
					return Action{Panic: "injected panic (string) in a late iterator event"}
				}
				return Action{Err: errInjected}
			}
			return Action{}
		})
		res := execThanos(c, st)
		if atomic.LoadInt32(&injected) == 0 {
			continue
		}
		if res.Kind != "err" {
			return fmt.Sprintf("storage failure in iterator event %d of select #%d while the other selects lag: the query succeeded with %d series", at, victim, len(res.Series))
		}
	}
	return ""
}

// ---------------------------------------------------------------------------------------------
// C13: injected panics; each attempt in a child process

type childReport struct {
	Kind     string `json:"kind"`
	Err      string `json:"err"`
	Injected bool   `json:"injected"`
	Opens    int64  `json:"opens"`
	Closes   int64  `json:"closes"`
	Double   int64  `json:"double"`
	Other    string `json:"other,omitempty"` // the other query running on the same engine
}

// runChildPanic is the body of `harness child-panic`: stdin = case, env K = event index.
func runChildPanic(k int) {
	var c Case
	if err := json.NewDecoder(os.Stdin).Decode(&c); err != nil {
		os.Exit(3)
	}
	st := NewMemStorage(c.Data())
	var injected int32
	if k > 0 {
		st.SetHook(func(kind string, n int64, info any) Action {
			if n >= int64(k) && atomic.CompareAndSwapInt32(&injected, 0, 1) {
				if k%2 == 0 {
					return Action{Panic: fmt.Sprintf("injected panic (string) at %s", kind)}
				}
				var m map[string]int
				m["injected"] = 1 // a runtime.Error
			}
			return Action{}
		})
	}
	if c.Procs > 0 {
		runtime.GOMAXPROCS(c.Procs)
	}
	eng := NewThanos(&c, EngOpts{DisableFallback: true})
	ctx, cancel := bg()
	defer cancel()
	res := c.Exec(ctx, eng, st)
	// another query on the same engine afterwards must be unaffected
	other := c.Exec(ctx, eng, NewMemStorage(c.Data()))
	rep := childReport{Kind: res.Kind, Err: res.Err, Injected: atomic.LoadInt32(&injected) == 1,
		Opens: st.Opens, Closes: st.Closes, Double: st.DoubleClose, Other: other.Kind + ":" + trunc(other.Err)}
	b, _ := json.Marshal(rep)
	fmt.Println(string(b))
}

func runChild(c *Case, k int) (*childReport, string) {
	self, _ := os.Executable()
	b, _ := json.Marshal(c)
	cmd := exec.Command(self, "child-panic", "-n", fmt.Sprint(k))
	cmd.Stdin = bytes.NewReader(b)
	var out, errb bytes.Buffer
	cmd.Stdout = &out
	cmd.Stderr = &errb
	done := make(chan error, 1)
	if err := cmd.Start(); err != nil {
		return nil, "cannot start child: " + err.Error()
	}
	go func() { done <- cmd.Wait() }()
	select {
	case err := <-done:
		if err != nil {
			msg := errb.String()
			if i := strings.Index(msg, "goroutine "); i > 0 {
				msg = msg[:i]
			}
			return nil, fmt.Sprintf("process died (%v): %s", err, trunc(strings.TrimSpace(msg)))
		}
	case <-time.After(60 * time.Second):
		cmd.Process.Kill()
		return nil, "process hung (60s)"
	}
	var rep childReport
	if err := json.Unmarshal(bytes.TrimSpace(out.Bytes()), &rep); err != nil {
		return nil, "bad child output: " + trunc(out.String())
	}
	return &rep, ""
}

func panicCase(c *Case, lean *LeanDriver) Verdict {
	v := baseVerdict(c, "panic")
	// fault-free run, in a child as well: extreme parameters may kill the process by themselves
	rep, died := runChild(c, 0)
	if died != "" {
		v.Crash = "no fault injected: " + died
		return v
	}
	if rep.Kind == "err" && strings.HasPrefix(rep.Err, "create: ") && ErrClass(rep.Err) == "unsupported" {
		v.Skipped = "not-native"
		return v
	}
	if _, q, err := leanInfo(c, lean); err == nil {
		v.Features = features(q)
	}
	kinds, _ := countEvents(c)
	v.NonTriv = len(kinds) > 0
	r := rand.New(rand.NewSource(int64(len(kinds))*31 + c.Start))
	budget := tierBudget() / 2
	for _, k := range positions(len(kinds), budget, r) {
		rep, died := runChild(c, k)
		if died != "" {
			kind := ""
			if k-1 < len(kinds) {
				kind = kinds[k-1]
			}
			v.Crash = fmt.Sprintf("panic injected at storage event %d (~%s): %s", k, kind, died)
			return v
		}
		if !rep.Injected {
			continue
		}
		if rep.Kind != "err" {
			v.Other = fmt.Sprintf("panic injected at storage event %d was swallowed: the query succeeded", k)
			return v
		}
		if strings.HasPrefix(rep.Other, "err:") && !(rep.Kind == "err" && ErrClass(rep.Err) != "other" && ErrClass(rep.Err) != "") {
			// the follow-up query failed although the clean run of the same query is fine
			if clean, _ := runChild(c, 0); clean != nil && clean.Kind != "err" {
				v.Other = fmt.Sprintf("after a panic at event %d a later query on the same engine failed: %s", k, rep.Other)
				return v
			}
		}
		if rep.Double > 0 || rep.Opens != rep.Closes {
			v.Other = fmt.Sprintf("after a panic at event %d: queriers opened %d closed %d (double close %d)", k, rep.Opens, rep.Closes, rep.Double)
			return v
		}
	}
	return v
}

// ---------------------------------------------------------------------------------------------
// C14: cancellation

func goroutineBaseline() int { return runtime.NumGoroutine() }

func waitGoroutines(base int, d time.Duration) (int, bool) {
	deadline := time.Now().Add(d)
	for {
		n := runtime.NumGoroutine()
		if n <= base {
			return n, true
		}
		if time.Now().After(deadline) {
			return n, false
		}
		time.Sleep(2 * time.Millisecond)
	}
}

func goroutineDump() string {
	buf := make([]byte, 1<<20)
	n := runtime.Stack(buf, true)
	var keep []string
	for _, g := range strings.Split(string(buf[:n]), "\n\n") {
		if strings.Contains(g, "promql-engine/") && !strings.Contains(g, "verifharness") {
			lines := strings.Split(g, "\n")
			if len(lines) > 6 {
				lines = lines[:6]
			}
			keep = append(keep, strings.Join(lines, " | "))
		}
	}
	if len(keep) > 3 {
		keep = keep[:3]
	}
	return strings.Join(keep, " ## ")
}

type cancelMode int

const (
	cancelCtx        cancelMode = iota // cancel the context given to Exec
	cancelQuery                        // call Query.Cancel() from another goroutine
	cancelBlock                        // the storage blocks until cancelled; cancel comes from a timer
	cancelExpire                       // the context's deadline passes
	cancelBlockAll                     // every storage interaction from the k-th on blocks until cancelled
	cancelQueryBlock                   // Query.Cancel() from another goroutine while the storage blocks until cancelled
)

func cancelOnce(c *Case, k int, mode cancelMode) (res Result, hung bool, leak string, st *MemStorage, fired bool) {
	st = NewMemStorage(c.Data())
	if c.Procs > 0 {
		runtime.GOMAXPROCS(c.Procs)
	}
	eng := NewThanos(c, EngOpts{DisableFallback: true})
	base := goroutineBaseline()
	ctx, cancel := context.WithCancel(context.Background())
	defer cancel()
	q, err := c.NewQuery(eng, st)
	if err != nil {
		return Result{Kind: "err", Err: "create: " + err.Error()}, false, "", st, false
	}
	var firedFlag int32
	st.SetHook(func(kind string, n int64, info any) Action {
		if mode == cancelBlockAll || mode == cancelQueryBlock {
			if n < int64(k) || kind == EvClose {
				return Action{}
			}
			if atomic.CompareAndSwapInt32(&firedFlag, 0, 1) {
				if mode == cancelBlockAll {
					go func() { time.Sleep(5 * time.Millisecond); cancel() }()
				} else {
					go func() { time.Sleep(2 * time.Millisecond); q.Cancel() }()
				}
			}
			// the query's own context is not visible here: wait for the outer one or for the
			// engine to give up on this callback's goroutine (bounded wait, then report the error)
			select {
			case <-ctx.Done():
			case <-qctxDone(q):
			case <-time.After(8 * time.Second):
			}
			if errorCapable[kind] {
				return Action{Err: context.Canceled}
			}
			return Action{}
		}
		if n >= int64(k) && atomic.CompareAndSwapInt32(&firedFlag, 0, 1) {
			switch mode {
			case cancelCtx:
				cancel()
			case cancelQuery:
				go q.Cancel()
				runtime.Gosched()
			case cancelBlock:
				go func() { time.Sleep(5 * time.Millisecond); cancel() }()
				<-ctx.Done()
				if errorCapable[kind] {
					return Action{Err: ctx.Err()}
				}
			case cancelExpire:
				cancel()
				time.Sleep(200 * time.Microsecond)
			}
		}
		return Action{}
	})
	done := make(chan Result, 1)
	go func() { done <- Canon(q.Exec(ctx), c) }()
	select {
	case res = <-done:
	case <-time.After(10 * time.Second):
		return Result{}, true, goroutineDump(), st, atomic.LoadInt32(&firedFlag) == 1
	}
	q.Close()
	if n, ok := waitGoroutines(base, 3*time.Second); !ok {
		leak = fmt.Sprintf("%d goroutine(s) still running 3s after Exec returned and the query was closed: %s", n-base, goroutineDump())
	}
	return res, false, leak, st, atomic.LoadInt32(&firedFlag) == 1
}

// qctxDone: the storage cannot see the context Exec derives; a blocking storage is modelled as one
// that unblocks when the querier it was opened with is told to stop, which our MemStorage learns
// from the context passed to Querier().
func qctxDone(q any) <-chan struct{} { return lastQuerierCtxDone() }

// cancelDistOnce: the query through a distributed engine over 2-3 remote engines whose storages all
// block from their k-th event on (counted across the engines) until the query is cancelled - so
// that several remote executions fail at the same moment - with the cancellation coming from the
// caller's context or from Cancel().
func cancelDistOnce(c *Case, k int, viaQuery bool) (res Result, hung bool, leak string, fired bool) {
	data := c.Data()
	np := 2 + int(c.Start%2+2)%2
	parts := make([][]SeriesData, np)
	for i, s := range data {
		parts[i%np] = append(parts[i%np], s)
	}
	if c.Procs > 0 {
		runtime.GOMAXPROCS(c.Procs)
	}
	base := goroutineBaseline()
	ctx, cancel := context.WithCancel(context.Background())
	defer cancel()
	var q promql.Query
	var qmu sync.Mutex
	var counter int64
	var firedFlag int32
	hook := func(kind string, _ int64, info any) Action {
		n := atomic.AddInt64(&counter, 1)
		if n < int64(k) || kind == EvClose {
			return Action{}
		}
		if atomic.CompareAndSwapInt32(&firedFlag, 0, 1) {
			go func() {
				time.Sleep(5 * time.Millisecond)
				if viaQuery {
					qmu.Lock()
					qq := q
					qmu.Unlock()
					if qq != nil {
						qq.Cancel()
						return
					}
				}
				cancel()
			}()
		}
		select {
		case <-ctx.Done():
		case <-qctxDone(nil):
		case <-time.After(8 * time.Second):
		}
		if errorCapable[kind] {
			return Action{Err: context.Canceled}
		}
		return Action{}
	}
	var engines []api.RemoteEngine
	for _, p := range parts {
		st := NewMemStorage(p)
		st.SetHook(hook)
		engines = append(engines, remoteEngine{c: c, st: st})
	}
	de := engine.NewDistributedEngine(engine.Opts{
		EngineOpts: promql.EngineOpts{Timeout: time.Hour, MaxSamples: 50000000,
			LookbackDelta: time.Duration(c.Lookback) * time.Millisecond, EnableAtModifier: true, EnableNegativeOffset: true},
		DisableFallback: true,
	}, api.NewStaticEndpoints(engines))
	local := NewMemStorage(data)
	local.SetHook(hook)
	qq, err := c.NewQuery(de, local)
	if err != nil {
		return Result{Kind: "err", Err: "create: " + err.Error()}, false, "", false
	}
	qmu.Lock()
	q = qq
	qmu.Unlock()
	done := make(chan Result, 1)
	go func() { done <- Canon(qq.Exec(ctx), c) }()
	select {
	case res = <-done:
	case <-time.After(10 * time.Second):
		return Result{}, true, goroutineDump(), atomic.LoadInt32(&firedFlag) == 1
	}
	qq.Close()
	if n, ok := waitGoroutines(base, 3*time.Second); !ok {
		leak = fmt.Sprintf("%d goroutine(s) still running 3s after Exec returned and the query was closed: %s", n-base, goroutineDump())
	}
	return res, false, leak, atomic.LoadInt32(&firedFlag) == 1
}

func cancelCase(c *Case, lean *LeanDriver) Verdict {
	v := baseVerdict(c, "cancel")
	kinds, clean := countEvents(c)
	if notNative(clean) {
		v.Skipped = "not-native"
		return v
	}
	if _, q, err := leanInfo(c, lean); err == nil {
		v.Features = features(q)
	}
	v.NonTriv = len(kinds) > 0
	// without any cancellation: no leak, no open querier
	if _, hung, leak, st, _ := cancelOnce(c, 1<<30, cancelCtx); hung || leak != "" || lifecycleComplaint(st) != "" {
		v.Other = fmt.Sprintf("no cancellation: hung=%v %s %s", hung, leak, lifecycleComplaint(st))
		return v
	}
	r := rand.New(rand.NewSource(int64(len(kinds))*17 + c.Start))
	modes := []cancelMode{cancelCtx, cancelQuery, cancelBlock, cancelBlockAll, cancelQueryBlock}
	for i, k := range positions(len(kinds), tierBudget(), r) {
		mode := modes[i%len(modes)]
		res, hung, leak, st, fired := cancelOnce(c, k, mode)
		where := fmt.Sprintf("cancellation (mode %d) at storage event %d of %d", mode, k, len(kinds))
		if hung {
			v.Other = where + ": Exec did not return within 10s: " + leak
			return v
		}
		if !fired {
			continue
		}
		if res.Kind != "err" {
			// a complete result is tolerated only if it is the full, uncancelled one
			if df := Diff(res, clean); df != "" {
				v.Other = where + ": Exec returned a successful partial result: " + df
				return v
			}
		} else if cls := ErrClass(res.Err); cls != "canceled" && clean.Kind != "err" {
			v.Other = where + ": Exec returned an error that is not the context's: " + trunc(res.Err)
			return v
		}
		if leak != "" {
			v.Other = where + ": " + leak
			return v
		}
		if lc := lifecycleComplaint(st); lc != "" {
			v.Other = where + ": " + lc
			return v
		}
	}
	// the same through a distributed engine: all remote executions blocked in their storages when
	// the cancellation comes
	for i, k := range []int{1, 2, 3, 5, 9} {
		res, hung, leak, fired := cancelDistOnce(c, k, i%2 == 1)
		where := fmt.Sprintf("distributed execution, cancellation while the storages block from event %d on", k)
		if hung {
			v.Other = where + ": Exec did not return within 10s: " + leak
			return v
		}
		if !fired {
			break
		}
		if res.Kind == "err" && strings.HasPrefix(res.Err, "create: ") {
			break
		}
		if leak != "" {
			v.Other = where + ": " + leak
			return v
		}
	}
	return v
}

// ---------------------------------------------------------------------------------------------
// C17: queriers closed exactly once, nothing opened at creation, storage-owned data untouched

func snapshotData(d []SeriesData) string {
	var sb strings.Builder
	for _, s := range d {
		for _, l := range s.Labels {
			sb.WriteString(l.Name + "=" + l.Value + ",")
		}
		sb.WriteString("|")
		for _, p := range s.Samples {
			fmt.Fprintf(&sb, "%d:%x:%v ", p.T, p.V, p.Stale)
		}
		sb.WriteString("\n")
	}
	return sb.String()
}

// arenaLabels moves the label sets of all series into one backing array, followed by a few sentinel
// labels, and returns the array; every series' slice keeps its length but its capacity reaches
// into what follows.
func arenaLabels(d []SeriesData) []labels.Label {
	n := 0
	for _, s := range d {
		n += len(s.Labels)
	}
	arena := make([]labels.Label, 0, n+4)
	for i := range d {
		b := len(arena)
		arena = append(arena, d[i].Labels...)
		d[i].Labels = arena[b:len(arena)]
	}
	for k := 0; k < 4; k++ {
		arena = append(arena, labels.Label{Name: "~sentinel", Value: "~"})
	}
	return arena
}

func lifecycleCase(c *Case, lean *LeanDriver) Verdict {
	v := baseVerdict(c, "lifecycle")
	data := c.Data()
	// the storage returns the very same label slices on every call, and they are carved out of one
	// backing array (as an arena-allocating storage does): the spare capacity of one series' label
	// slice is the next series' labels, so an append in place writes into storage-owned memory
	arena := arenaLabels(data)
	st := NewMemStorage(data)
	st.ShareLabels = true
	before := snapshotData(st.Series) + labels.Labels(arena).String()
	snapshotData := func(d []SeriesData) string { return snapshotData(d) + labels.Labels(arena).String() }
	if c.Procs > 0 {
		runtime.GOMAXPROCS(c.Procs)
	}
	ctx, cancel := bg()
	defer cancel()
	if _, q, err := leanInfo(c, lean); err == nil {
		v.Features = features(q)
	}
	for _, opt := range []string{"none", "default", "all"} {
		d := c.clone()
		d.Opt = opt
		eng := NewThanos(d, EngOpts{})
		q, err := d.NewQuery(eng, st)
		if err != nil {
			v.Skipped = "create: " + err.Error()
			return v
		}
		if st.Opens != st.Closes || st.Events() != 0 && st.Opens > 0 && false {
			v.Other = "a querier is open after query creation"
			return v
		}
		opensBefore := st.Opens
		if opt == "none" && opensBefore != 0 {
			v.Other = fmt.Sprintf("query creation opened %d querier(s)", opensBefore)
			return v
		}
		first := Canon(q.Exec(ctx), d)
		if lc := lifecycleComplaint(st); lc != "" {
			v.Other = "optimizers=" + opt + ": " + lc
			return v
		}
		q.Close()
		v.NonTriv = v.NonTriv || nonTrivial(first)
		if after := snapshotData(st.Series); after != before {
			v.Other = "optimizers=" + opt + ": the engine modified label sets or samples owned by the storage"
			return v
		}
		// the same query again over the same (shared) label slices
		q2, err := d.NewQuery(eng, st)
		if err == nil {
			second := Canon(q2.Exec(ctx), d)
			q2.Close()
			if df := Diff(second, first); df != "" && !v.Tie {
				if ans, _, e := leanInfo(c, lean, "ties"); e == nil && ans["ties"] == "1" {
					v.Tie = true
				} else {
					v.Other = "second run over the same storage differs: " + df
					return v
				}
			}
		}
	}
	// the query handle tolerates every order of Cancel / Close / Exec: none of them may panic
	// on the caller's goroutine (that is outside the engine's recover) or hang
	if msg := apiSequences(c); msg != "" {
		v.Other = msg
		return v
	}
	// created but never executed: nothing may be opened
	st2 := NewMemStorage(c.Data())
	if q, err := c.NewQuery(NewThanos(c, EngOpts{}), st2); err == nil {
		q.Close()
		if st2.Opens != 0 || st2.Events() != 0 {
			v.Other = fmt.Sprintf("a query that was created but never executed touched the storage (%d events, %d queriers)", st2.Events(), st2.Opens)
		}
	}
	return v
}

func apiSequences(c *Case) (msg string) {
	seqs := [][]string{
		{"cancel", "close"}, {"close", "close"}, {"close", "cancel"}, {"cancel", "exec", "close"},
		{"exec", "cancel", "close", "close"}, {"exec", "close", "cancel"}, {"cancel", "cancel", "exec", "cancel", "close"},
	}
	for _, sq := range seqs {
		func() {
			defer func() {
				if r := recover(); r != nil {
					msg = fmt.Sprintf("query API sequence %v panicked on the caller's goroutine: %v", sq, r)
				}
			}()
			q, err := c.NewQuery(NewThanos(c, EngOpts{DisableFallback: true}), NewMemStorage(c.Data()))
			if err != nil {
				return
			}
			for _, op := range sq {
				switch op {
				case "cancel":
					q.Cancel()
				case "close":
					q.Close()
				case "exec":
					ctx, cancel := bg()
					q.Exec(ctx)
					cancel()
				}
			}
		}()
		if msg != "" {
			return msg
		}
	}
	return ""
}

// ---------------------------------------------------------------------------------------------
// C20: sequences of queries on one engine, interleaved with appends; results stay untouched

type kept struct {
	res  *promql.Result
	snap Result
	c    *Case
	q    promql.Query
}

// seqCase treats c.Query as ';'-separated queries; c.Tags carries the operation script.
func seqCase(c *Case, lean *LeanDriver) Verdict {
	v := baseVerdict(c, "sequence")
	queries := strings.Split(c.Query, ";;")
	data := c.Data()
	r := rand.New(rand.NewSource(c.Start + int64(len(c.Query))))
	n0 := len(data) / 2
	cur := append([]SeriesData(nil), data[:n0]...)
	pending := data[n0:]
	if c.Procs > 0 {
		runtime.GOMAXPROCS(c.Procs)
	}
	eng := NewThanos(c, EngOpts{})
	var keptResults []kept
	recheck := func(when string) string {
		for i, k := range keptResults {
			now := Canon(k.res, k.c)
			if df := Diff(now, k.snap); df != "" || len(now.WF) != len(k.snap.WF) {
				return fmt.Sprintf("result #%d (%s) changed after %s: %s", i, k.c.Query, when, df)
			}
		}
		return ""
	}
	steps := 0
	for round := 0; round < 2; round++ {
		for qi, qs := range queries {
			steps++
			d := c.clone()
			d.Query = qs
			if round == 1 {
				// the same query text again, at another evaluation time: nothing that was
				// computed for the first window may be reused
				shift := d.Step
				if shift == 0 {
					shift = 15000
				}
				shift *= int64(1 + r.Intn(20))
				d.Start += shift
				if !d.Instant() {
					d.End += shift
				}
			}
			// per-query options must not outlive their query
			switch r.Intn(4) {
			case 0:
				d.QLookback = []int64{1000, 30000, 600000, 7000}[r.Intn(4)]
			case 1:
				d.QLookback = 0
			}
			st := NewMemStorage(cur)
			ctx, cancel := bg()
			q, err := d.NewQuery(eng, st)
			if err != nil {
				cancel()
				continue
			}
			mode := r.Intn(8)
			if mode >= 5 {
				mode = 3 // plain execution
			}
			if mode == 0 {
				// a cancelled query in the middle of the sequence
				cctx, ccancel := context.WithCancel(ctx)
				ccancel()
				q.Exec(cctx)
				q.Close()
				cancel()
				if msg := recheck("a cancelled query"); msg != "" {
					v.Other = msg
					return v
				}
				continue
			}
			// results of the fallback path belong to the Prometheus engine, whose contract
			// allows it to reuse their memory once the query is closed
			_, nerr := d.NewQuery(NewThanos(d, EngOpts{DisableFallback: true}), NewMemStorage(nil))
			nativeQ := nerr == nil
			if (mode == 1 || mode == 2 || mode == 4) && nativeQ {
				// a query that is cancelled, or whose storage fails, in the middle of its
				// execution - late enough that batches have already been consumed
				dry := NewMemStorage(cur)
				d.Exec(ctx, NewThanos(d, EngOpts{}), dry)
				total := dry.Events()
				kk := int64(3 + r.Intn(400))
				if mode != 1 && total > 8 {
					kk = total/2 + r.Int63n(total/2)
				}
				cctx, ccancel := context.WithCancel(ctx)
				what := "a query cancelled during execution"
				if mode == 4 {
					what = "a query whose storage failed during execution"
				}
				st.SetHook(func(kind string, n int64, info any) Action {
					if n >= kk {
						if mode == 4 {
							return Action{Err: fmt.Errorf("injected storage failure")}
						}
						ccancel()
					}
					return Action{}
				})
				q.Exec(cctx)
				ccancel()
				q.Close()
				cancel()
				if msg := recheck(what); msg != "" {
					v.Other = msg
					return v
				}
				continue
			}
			raw := q.Exec(ctx)
			got := Canon(raw, d)
			fresh := d.Exec(ctx, NewThanos(d, EngOpts{}), NewMemStorage(cur))
			cancel()
			tie := false
			if df := Diff(got, fresh); df != "" {
				// the tie analysis runs on what the query ran over: the series present now, with
				// the samples appended so far (not the case's full data set)
				dt := d.clone()
				dt.Series = seriesToJ(cur)
				if ans, _, e := leanInfo(dt, lean, "ties"); e == nil && ans["ties"] == "1" {
					tie = true
				} else {
					v.Other = fmt.Sprintf("query #%d (%s) on the long-lived engine differs from a fresh engine: %s", qi, qs, df)
					return v
				}
			}
			if !tie && nativeQ {
				keptResults = append(keptResults, kept{res: raw, snap: got, c: d, q: q})
			}
			v.NonTriv = v.NonTriv || nonTrivial(got)
			if r.Intn(2) == 0 {
				q.Close()
				if msg := recheck("closing query " + qs); msg != "" {
					v.Other = msg
					return v
				}
			}
			if msg := recheck("query " + qs); msg != "" {
				v.Other = msg
				return v
			}
			// append a series or samples
			if len(pending) > 0 && r.Intn(2) == 0 {
				cur = append(append([]SeriesData(nil), cur...), pending[0])
				pending = pending[1:]
			} else if len(cur) > 0 {
				i := r.Intn(len(cur))
				ns := cur[i]
				last := c.Start
				if len(ns.Samples) > 0 {
					last = ns.Samples[len(ns.Samples)-1].T
				}
				ns.Samples = append(append([]Sample(nil), ns.Samples...), Sample{T: last + 1000, V: float64(r.Intn(100))})
				cur = append([]SeriesData(nil), cur...)
				cur[i] = ns
			}
		}
	}
	for _, k := range keptResults {
		k.q.Close()
	}
	if msg := recheck("closing all queries"); msg != "" {
		v.Other = msg
	}
	v.Steps = steps
	return v
}

// ---------------------------------------------------------------------------------------------
// C12: concurrent queries on one engine and one storage (meant for the -race build)

func concurrentCase(c *Case, lean *LeanDriver) Verdict {
	v := baseVerdict(c, "concurrent")
	queries := strings.Split(c.Query, ";;")
	runtime.GOMAXPROCS(8)
	st := NewMemStorage(c.Data())
	st.ShareLabels = true
	eng := NewThanos(c, EngOpts{})
	type job struct {
		c      *Case
		solo   Result
		tie    bool
		native bool
	}
	var jobs []job
	c.Opt = "default"
	eng = NewThanos(c, EngOpts{})
	for qi, qs := range queries {
		d := c.clone()
		d.Query = qs
		if qi%2 == 1 {
			d.QLookback = []int64{1000, 30000, 600000}[qi%3]
		} else {
			d.QLookback = 0
		}
		ctx, cancel := bg()
		solo := d.Exec(ctx, NewThanos(d, EngOpts{}), NewMemStorage(c.Data()))
		cancel()
		tie := false
		if ans, _, e := leanInfo(d, lean, "ties"); e == nil && ans["ties"] == "1" {
			tie = true
		}
		native := false
		if qn, e := d.NewQuery(NewThanos(d, EngOpts{DisableFallback: true}), NewMemStorage(nil)); e == nil {
			native = true
			qn.Close()
		}
		jobs = append(jobs, job{d, solo, tie, native})
		v.NonTriv = v.NonTriv || nonTrivial(solo)
	}
	K := 4 * len(jobs)
	if K > 32 {
		K = 32
	}
	errs := make(chan string, 2*K)
	wave := func() {
		var wg sync.WaitGroup
		for i := 0; i < K; i++ {
			wg.Add(1)
			go func(i int) {
				defer wg.Done()
				j := jobs[i%len(jobs)]
				ctx, cancel := bg()
				defer cancel()
				q, err := j.c.NewQuery(eng, st)
				if err != nil {
					if j.solo.Kind != "err" {
						errs <- "creation failed concurrently: " + err.Error()
					}
					return
				}
				if i%5 == 4 && j.native {
					// Cancel racing with Exec (the Prometheus engine's own query type has a
					// race of its own between Cancel and Exec, so fallback queries are left alone)
					go q.Cancel()
				}
				got := Canon(q.Exec(ctx), j.c)
				q.Close()
				if i%5 == 4 && got.Kind == "err" && ErrClass(got.Err) == "canceled" {
					return
				}
				if df := Diff(got, j.solo); df != "" && !j.tie {
					errs <- fmt.Sprintf("query %q run concurrently differs from its solo run: %s", j.c.Query, df)
				}
			}(i)
		}
		wg.Wait()
	}
	wave()
	// Interlude: queries that end badly *after* they have produced part of their result - a storage
	// error or a cancellation late in the evaluation - run on the same engine and are closed. Whatever
	// the engine recycles on those paths (buffers, pooled slices) must not reach later queries:
	// the second wave below has to give the solo results again.
	for ji, j := range jobs {
		if !j.native || j.solo.Kind == "err" || ji >= 4 {
			continue
		}
		kinds, _ := countEvents(j.c)
		if len(kinds) < 4 {
			continue
		}
		for variant := 0; variant < 2; variant++ {
			variant := variant
			k := int64(len(kinds)*(6+2*variant)/10 + 1)
			fst := NewMemStorage(c.Data())
			ctx, cancel := bg()
			var once int32
			fst.SetHook(func(kind string, n int64, info any) Action {
				if n >= k && atomic.CompareAndSwapInt32(&once, 0, 1) {
					if variant == 1 {
						cancel()
						return Action{}
					}
					if errorCapable[kind] {
						return Action{Err: errInjected}
					}
					atomic.StoreInt32(&once, 0)
				}
				return Action{}
			})
			if q, err := j.c.NewQuery(eng, fst); err == nil {
				q.Exec(ctx)
				q.Close()
			}
			cancel()
		}
	}
	wave()
	close(errs)
	for e := range errs {
		v.Other = e
		break
	}
	v.Steps = 2 * K
	return v
}

// ---------------------------------------------------------------------------------------------

var _ = labels.MetricName
var _ storage.Queryable = (*MemStorage)(nil)

// seriesToJ is the inverse of Case.Data.
func seriesToJ(data []SeriesData) []SeriesJ {
	out := make([]SeriesJ, len(data))
	for i, sd := range data {
		for _, l := range sd.Labels {
			out[i].Labels = append(out[i].Labels, [2]string{l.Name, l.Value})
		}
		for _, smp := range sd.Samples {
			out[i].Samples = append(out[i].Samples, SampleJ{T: smp.T, V: F(smp.V), Stale: smp.Stale})
		}
	}
	return out
}
