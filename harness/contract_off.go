//go:build !verif

package main

func drainContract() []string { return nil }
func contractEnabled() bool   { return false }

var contractYield int32
var contractOps int64
