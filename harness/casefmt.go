package main

// Case format (JSON lines) and the line protocol spoken to the Lean driver.

import (
	"encoding/json"
	"fmt"
	"math"
	"sort"
	"strconv"
	"strings"
	"time"

	"github.com/prometheus/prometheus/model/labels"
	"github.com/prometheus/prometheus/promql"
	"github.com/prometheus/prometheus/promql/parser"

	"github.com/thanos-community/promql-engine/logicalplan"
)

// F is a float64 that survives JSON (NaN, Inf, -0) by being written as its bit pattern.
type F float64

func (f F) MarshalJSON() ([]byte, error) {
	return []byte(fmt.Sprintf("\"%016x\"", math.Float64bits(float64(f)))), nil
}
func (f *F) UnmarshalJSON(b []byte) error {
	var s string
	if err := json.Unmarshal(b, &s); err != nil {
		return err
	}
	u, err := strconv.ParseUint(s, 16, 64)
	if err != nil {
		return err
	}
	*f = F(math.Float64frombits(u))
	return nil
}

type SampleJ struct {
	T     int64 `json:"t"`
	V     F     `json:"v"`
	Stale bool  `json:"stale,omitempty"`
}

type SeriesJ struct {
	Labels  [][2]string `json:"labels"` // sorted by name
	Samples []SampleJ   `json:"samples"`
}

type Case struct {
	ID        string    `json:"id"`
	Profile   string    `json:"profile,omitempty"`
	Query     string    `json:"query"`
	Series    []SeriesJ `json:"series"`
	Start     int64     `json:"start"`
	End       int64     `json:"end"`
	Step      int64     `json:"step"` // 0 = instant query at Start
	Lookback  int64     `json:"lookback"`
	QLookback int64     `json:"qlookback,omitempty"`
	Procs     int       `json:"procs,omitempty"`
	Opt       string    `json:"opt,omitempty"` // none|default|all|sort|merge|prop
	Parts     [][]int   `json:"parts,omitempty"`
	// sub-millisecond parts of the window bounds handed to the engines (nanoseconds, < 1e6)
	StartNs int64    `json:"start_ns,omitempty"`
	EndNs   int64    `json:"end_ns,omitempty"`
	Tags    []string `json:"tags,omitempty"`
	// kernel cases: reference times (selectPoint) or range ends (selectPoints), range, offset
	Refs    []int64 `json:"refs,omitempty"`
	KRange  int64   `json:"krange,omitempty"`
	KOffset int64   `json:"koffset,omitempty"`
	KStep   int64   `json:"kstep,omitempty"`
	// kernel:table cases
	KTable *TableCase `json:"ktable,omitempty"`
	// kernel:acc cases
	KAcc *AccCase `json:"kacc,omitempty"`
	// kernel:coalesce cases
	KCo *CoCase    `json:"kco,omitempty"`
	KSl *SliceCase `json:"ksl,omitempty"`
	// kernel:remote cases
	KRem *RemCase `json:"krem,omitempty"`
	// kernel:pull cases
	KPull *PullCase `json:"kpull,omitempty"`
}

// AccCase: one accumulator reused over a sequence of steps (Reset(arg), then the members).
type AccCase struct {
	Op    string    `json:"op"`
	Steps []AccStep `json:"steps"`
}

type AccStep struct {
	Arg  F   `json:"arg"`
	Vals []F `json:"vals"`
}

// TableCase: the join indexes of one binary operator and a sequence of steps.
type TableCase struct {
	Card  int         `json:"card"` // 0 one-to-one, 1 many-to-one, 2 one-to-many
	Op    string      `json:"op"`
	Bool  bool        `json:"bool"`
	N     int         `json:"n"`    // number of output slots
	High  []int       `json:"high"` // output of each high-cardinality series, -1 = none
	Low   [][]int     `json:"low"`  // outputs of each low-cardinality series
	Steps []TableStep `json:"steps"`
}

type TableStep struct {
	T   int64      `json:"t"`
	Lhs [][2]int64 `json:"lhs"` // (sample id, value as small integer)
	Rhs [][2]int64 `json:"rhs"`
}

func (c *Case) Instant() bool { return c.Step == 0 }

func (c *Case) Grid() []int64 {
	if c.Instant() {
		return []int64{c.Start}
	}
	var g []int64
	for t := c.Start; t <= c.End; t += c.Step {
		g = append(g, t)
	}
	return g
}

func (c *Case) Data() []SeriesData {
	out := make([]SeriesData, len(c.Series))
	for i, s := range c.Series {
		ls := make(labels.Labels, 0, len(s.Labels))
		for _, kv := range s.Labels {
			ls = append(ls, labels.Label{Name: kv[0], Value: kv[1]})
		}
		sort.Sort(ls)
		out[i].Labels = ls
		for _, p := range s.Samples {
			out[i].Samples = append(out[i].Samples, Sample{T: p.T, V: float64(p.V), Stale: p.Stale})
		}
	}
	return out
}

func (c *Case) Optimizers() []logicalplan.Optimizer {
	switch c.Opt {
	case "", "default":
		return logicalplan.DefaultOptimizers
	case "none":
		return logicalplan.NoOptimizers
	case "all":
		return logicalplan.AllOptimizers
	case "sort":
		return []logicalplan.Optimizer{logicalplan.SortMatchers{}}
	case "merge":
		return []logicalplan.Optimizer{logicalplan.MergeSelectsOptimizer{}}
	case "prop":
		return []logicalplan.Optimizer{logicalplan.PropagateMatchersOptimizer{}}
	}
	panic("unknown optimizer set " + c.Opt)
}

func ms(t int64) time.Time { return time.UnixMilli(t) }

func (c *Case) tStart() time.Time { return time.UnixMilli(c.Start).Add(time.Duration(c.StartNs)) }
func (c *Case) tEnd() time.Time {
	if c.Instant() {
		return c.tStart()
	}
	return time.UnixMilli(c.End).Add(time.Duration(c.EndNs))
}

// ---------------------------------------------------------------------------------------------
// Line protocol

func bits(v float64) string { return fmt.Sprintf("%016x", math.Float64bits(v)) }

func encS(s string) string { return "s:" + s }

func okToken(s string) bool {
	for _, r := range s {
		if r == ' ' || r == '(' || r == ')' || r == '\n' || r == '\t' || r == ';' || r == ',' || r == '=' || r == '@' {
			return false
		}
	}
	return true
}

type sexprErr struct{ msg string }

func (e sexprErr) Error() string { return e.msg }

func matcherSexpr(m *labels.Matcher) string {
	ty := map[labels.MatchType]string{labels.MatchEqual: "eq", labels.MatchNotEqual: "neq", labels.MatchRegexp: "re", labels.MatchNotRegexp: "nre"}[m.Type]
	if !okToken(m.Name) || !okToken(m.Value) {
		panic(sexprErr{"token not encodable: " + m.String()})
	}
	return fmt.Sprintf("(m %s %s %s)", ty, encS(m.Name), encS(m.Value))
}

func vselSexpr(vs *parser.VectorSelector) string {
	var sb strings.Builder
	at := "none"
	if vs.Timestamp != nil {
		at = strconv.FormatInt(*vs.Timestamp, 10)
	} else if vs.StartOrEnd != 0 {
		panic(sexprErr{"unresolved start()/end()"})
	}
	fmt.Fprintf(&sb, "(vsel %d %s", vs.OriginalOffset.Milliseconds(), at)
	for _, m := range vs.LabelMatchers {
		sb.WriteString(" ")
		sb.WriteString(matcherSexpr(m))
	}
	sb.WriteString(")")
	return sb.String()
}

func namesSexpr(tag string, names []string) string {
	var sb strings.Builder
	sb.WriteString("(" + tag)
	for _, n := range names {
		if !okToken(n) {
			panic(sexprErr{"token not encodable: " + n})
		}
		sb.WriteString(" " + encS(n))
	}
	sb.WriteString(")")
	return sb.String()
}

// Sexpr serialises an expression (after promql.PreprocessExpr, possibly after the engine's
// optimizers) for the Lean driver.
func Sexpr(e parser.Expr) string {
	switch n := e.(type) {
	case *parser.NumberLiteral:
		return "(num " + bits(n.Val) + ")"
	case *parser.StringLiteral:
		return "(str)"
	case *parser.VectorSelector:
		return vselSexpr(n)
	case *logicalplan.FilteredSelector:
		var sb strings.Builder
		sb.WriteString("(fsel " + vselSexpr(n.VectorSelector) + " (f")
		for _, m := range n.Filters {
			sb.WriteString(" " + matcherSexpr(m))
		}
		sb.WriteString("))")
		return sb.String()
	case *parser.MatrixSelector:
		return fmt.Sprintf("(msel %d %s)", n.Range.Milliseconds(), Sexpr(n.VectorSelector))
	case *parser.SubqueryExpr:
		return "(subq " + Sexpr(n.Expr) + ")"
	case *parser.Call:
		var sb strings.Builder
		sb.WriteString("(call " + encS(n.Func.Name))
		for _, a := range n.Args {
			sb.WriteString(" " + Sexpr(a))
		}
		sb.WriteString(")")
		return sb.String()
	case *parser.AggregateExpr:
		p := "none"
		if n.Param != nil {
			p = Sexpr(n.Param)
		}
		w := 0
		if n.Without {
			w = 1
		}
		return fmt.Sprintf("(agg %s %d %s %s %s)", encS(n.Op.String()), w, namesSexpr("g", n.Grouping), p, Sexpr(n.Expr))
	case *parser.BinaryExpr:
		card, on := "11", 0
		var ml, inc []string
		if n.VectorMatching != nil {
			switch n.VectorMatching.Card {
			case parser.CardOneToOne:
				card = "11"
			case parser.CardManyToOne:
				card = "n1"
			case parser.CardOneToMany:
				card = "1n"
			case parser.CardManyToMany:
				card = "nn"
			}
			if n.VectorMatching.On {
				on = 1
			}
			ml, inc = n.VectorMatching.MatchingLabels, n.VectorMatching.Include
		}
		b := 0
		if n.ReturnBool {
			b = 1
		}
		ty := func(x parser.Expr) string {
			if x.Type() == parser.ValueTypeScalar {
				return "s"
			}
			return "v"
		}
		return fmt.Sprintf("(bin %s %d %s %d %s %s %s%s %s %s)", encS(n.Op.String()), b, card, on,
			namesSexpr("l", ml), namesSexpr("i", inc), ty(n.LHS), ty(n.RHS), Sexpr(n.LHS), Sexpr(n.RHS))
	case *parser.UnaryExpr:
		if n.Op == parser.SUB {
			return "(neg " + Sexpr(n.Expr) + ")"
		}
		return "(pos " + Sexpr(n.Expr) + ")"
	case *parser.ParenExpr:
		return "(paren " + Sexpr(n.Expr) + ")"
	case *parser.StepInvariantExpr:
		return "(si " + Sexpr(n.Expr) + ")"
	case logicalplan.Coalesce:
		var sb strings.Builder
		sb.WriteString("(coalesce")
		for _, a := range n.Expressions {
			sb.WriteString(" " + Sexpr(a))
		}
		sb.WriteString(")")
		return sb.String()
	case *logicalplan.RemoteExecution:
		return "(remote)"
	}
	panic(sexprErr{fmt.Sprintf("unknown node %T", e)})
}

// collectMatchers returns every regex matcher (incl. filters) and all matcher names in e.
func collectMatchers(e parser.Expr) (res []*labels.Matcher) {
	parser.Inspect(e, func(n parser.Node, _ []parser.Node) error {
		switch v := n.(type) {
		case *parser.VectorSelector:
			res = append(res, v.LabelMatchers...)
		}
		return nil
	})
	return res
}

// ProtoLines renders a case for the Lean driver. plan is the preprocessed expression.
func (c *Case) ProtoLines(plan parser.Expr, views []string) (lines []string, err error) {
	defer func() {
		if r := recover(); r != nil {
			if se, ok := r.(sexprErr); ok {
				err = se
				return
			}
			panic(r)
		}
	}()
	lines = append(lines, "case "+c.ID)
	kind := "range"
	if c.Instant() {
		kind = "instant"
	}
	lb := c.Lookback
	if c.QLookback != 0 {
		lb = c.QLookback
	}
	lines = append(lines, fmt.Sprintf("opt kind=%s start=%d end=%d step=%d lookback=%d englookback=%d type=%s",
		kind, c.Start, c.End, c.Step, lb, c.Lookback, plan.Type()))
	data := c.Data()
	// regex table
	seen := map[string]bool{}
	for _, m := range collectMatchers(plan) {
		if m.Type != labels.MatchRegexp && m.Type != labels.MatchNotRegexp {
			continue
		}
		vals := map[string]bool{"": true}
		for _, s := range data {
			vals[s.Labels.Get(m.Name)] = true
		}
		pm := labels.MustNewMatcher(labels.MatchRegexp, m.Name, m.Value)
		for v := range vals {
			k := m.Value + "\x00" + v
			if seen[k] {
				continue
			}
			seen[k] = true
			r := 0
			if pm.Matches(v) {
				r = 1
			}
			lines = append(lines, fmt.Sprintf("re %s %s %d", encS(m.Value), encS(v), r))
		}
	}
	// parseFloat table for le
	seenLe := map[string]bool{}
	for _, s := range data {
		le := s.Labels.Get("le")
		if seenLe[le] {
			continue
		}
		seenLe[le] = true
		f, perr := strconv.ParseFloat(le, 64)
		if perr != nil {
			lines = append(lines, fmt.Sprintf("pf %s bad", encS(le)))
		} else {
			lines = append(lines, fmt.Sprintf("pf %s %s", encS(le), bits(f)))
		}
	}
	for _, s := range data {
		var sb strings.Builder
		sb.WriteString("series")
		for _, l := range s.Labels {
			if !okToken(l.Name) || !okToken(l.Value) {
				return nil, sexprErr{"label not encodable"}
			}
			sb.WriteString(" " + l.Name + "=" + encS(l.Value))
		}
		sb.WriteString(" |")
		for _, p := range s.Samples {
			if p.Stale {
				fmt.Fprintf(&sb, " %d:stale", p.T)
			} else {
				fmt.Fprintf(&sb, " %d:%s", p.T, bits(p.V))
			}
		}
		lines = append(lines, sb.String())
	}
	lines = append(lines, "query "+Sexpr(plan))
	for _, v := range views {
		lines = append(lines, "eval "+v)
	}
	lines = append(lines, "end")
	return lines, nil
}

// Preprocess parses the query and applies Prometheus' PreprocessExpr for the case's window.
func (c *Case) Preprocess() (parser.Expr, error) {
	expr, err := parser.ParseExpr(c.Query)
	if err != nil {
		return nil, err
	}
	end := c.End
	if c.Instant() {
		end = c.Start
	}
	_ = end
	return promql.PreprocessExpr(expr, c.tStart(), c.tEnd()), nil
}

// atInAggParam: an aggregation parameter holds a selector with an @ modifier. The reference
// engine's preprocessing does not visit parameters, so the selector is neither pinned nor wrapped
// as step-invariant: its window slides with the step, over whatever the storage happens to return
// outside the range that was selected (one querier for the whole query in the reference engine,
// one per selector in this one). What comes out is not determined by the query and the data.
// inclUnderJoin: the output of a join with include labels - whose label sets repeat label names
// (known finding on include labels) - is an operand of another vector-to-vector operator. Matching
// on label sets with repeated names goes through hashing and builder code that assumes sorted,
// unique names; the model does not follow the engine there.
func inclUnderJoin(e parser.Expr) bool {
	hasIncl := func(x parser.Expr) bool {
		f := false
		parser.Inspect(x, func(n parser.Node, _ []parser.Node) error {
			if b, ok := n.(*parser.BinaryExpr); ok && b.VectorMatching != nil && len(b.VectorMatching.Include) > 0 {
				f = true
			}
			return nil
		})
		return f
	}
	found := false
	parser.Inspect(e, func(n parser.Node, _ []parser.Node) error {
		b, ok := n.(*parser.BinaryExpr)
		if !ok || b.LHS.Type() != parser.ValueTypeVector || b.RHS.Type() != parser.ValueTypeVector {
			return nil
		}
		if hasIncl(b.LHS) || hasIncl(b.RHS) {
			found = true
		}
		return nil
	})
	return found
}

// includesName: a group_left / group_right whose include list names `__name__`: the engine appends
// the one side's name label to the output (known finding on include labels), which then carries
// two name labels; what later operators do to such a label set (the engine drops the first name
// label only) is not followed by the model.
func includesName(e parser.Expr) bool {
	found := false
	parser.Inspect(e, func(n parser.Node, _ []parser.Node) error {
		if b, ok := n.(*parser.BinaryExpr); ok && b.VectorMatching != nil {
			for _, l := range b.VectorMatching.Include {
				if l == "__name__" {
					found = true
				}
			}
		}
		return nil
	})
	return found
}

// tsPinnedOffsetMulti: `timestamp()` over a selector that is pinned (`@`) and shifted (`offset`), in
// a query with further selectors. The reference engine's special case for timestamp() re-reads
// the series at `@` from whatever its one query-wide querier returned, i.e. from the union of all
// selectors' time ranges - its value depends on the other selectors of the query (and is not what
// the engine returns: known finding KF-timestamp-at-offset). The reference semantics of Sem.lean
// models the single-selector case.
func tsPinnedOffsetMulti(e parser.Expr) bool {
	selectors := 0
	pinnedShifted := false
	parser.Inspect(e, func(n parser.Node, _ []parser.Node) error {
		switch v := n.(type) {
		case *parser.VectorSelector:
			selectors++
		case *parser.Call:
			if v.Func.Name == "timestamp" && len(v.Args) == 1 {
				a := v.Args[0]
				for {
					if p, ok := a.(*parser.ParenExpr); ok {
						a = p.Expr
						continue
					}
					if si, ok := a.(*parser.StepInvariantExpr); ok {
						a = si.Expr
						continue
					}
					break
				}
				if vs, ok := a.(*parser.VectorSelector); ok && vs.Timestamp != nil && vs.OriginalOffset != 0 {
					pinnedShifted = true
				}
			}
		}
		return nil
	})
	return pinnedShifted && selectors >= 2
}

// movingParamUnderWrapper: PreprocessExpr wrapped an aggregation as step invariant although its
// parameter is not (it looks at the aggregated expression only): the reference engine - and this
// one after it - evaluates the whole aggregation once at the window start (known finding
// KF-stepinvariant-moving-param).
func movingParamUnderWrapper(e parser.Expr) bool {
	found := false
	parser.Inspect(e, func(n parser.Node, _ []parser.Node) error {
		si, ok := n.(*parser.StepInvariantExpr)
		if !ok {
			return nil
		}
		// anywhere inside the wrapper: an aggregation whose parameter moves with the step
		parser.Inspect(si.Expr, func(k parser.Node, _ []parser.Node) error {
			a, ok := k.(*parser.AggregateExpr)
			if !ok || a.Param == nil {
				return nil
			}
			parser.Inspect(a.Param, func(m parser.Node, _ []parser.Node) error {
				switch x := m.(type) {
				case *parser.VectorSelector:
					if x.Timestamp == nil {
						found = true
					}
				case *parser.Call:
					if x.Func.Name == "time" {
						found = true
					}
				}
				return nil
			})
			return nil
		})
		return nil
	})
	return found
}

func atInAggParam(e parser.Expr) bool {
	found := false
	parser.Inspect(e, func(n parser.Node, _ []parser.Node) error {
		if a, ok := n.(*parser.AggregateExpr); ok && a.Param != nil {
			parser.Inspect(a.Param, func(m parser.Node, _ []parser.Node) error {
				switch x := m.(type) {
				case *parser.VectorSelector:
					if x.Timestamp != nil || x.StartOrEnd != 0 {
						found = true
					}
				case *parser.SubqueryExpr:
					if x.Timestamp != nil || x.StartOrEnd != 0 {
						found = true
					}
				}
				return nil
			})
		}
		return nil
	})
	return found
}
