#!/bin/bash
# usage: SEEDROOT=/tmp/seedN/out seedconfirm.sh <Cxx> <mutK>
# Confirm phase only, in a scratch worktree of /repo (safe to run several at once, e.g. with
# xargs -P 5): the pinned suite passes with the change, the demonstration fails with it and passes
# without it. Writes $SEEDROOT/../confirm/<P>_<M>.txt and the diff rebased on HEAD (<P>_<M>.diff).
P=$1; M=$2
SRC=${SEEDROOT:-/tmp/seed/out}/$P/$M
OUT=$(dirname ${SEEDROOT:-/tmp/seed/out})/confirm
WT=/tmp/seedverify_${P}_${M}
mkdir -p $OUT
export GOFLAGS=-mod=mod GOPROXY=off GOSUMDB=off GOTOOLCHAIN=local
[ -f $SRC/patch.diff ] || { echo "no patch" > $OUT/${P}_$M.txt; exit 2; }
rm -rf $WT; git -C /repo worktree add -q --detach $WT HEAD || exit 2
cd $WT
if ! git apply $SRC/patch.diff 2>/dev/null && ! git apply --3way $SRC/patch.diff 2>/dev/null; then echo "APPLY-FAILED" > $OUT/${P}_$M.txt; cd /; git -C /repo worktree remove --force $WT; exit 3; fi
git diff > $OUT/${P}_$M.diff
SUITE=$(go test -vet=off -count=1 -timeout 25m ./... 2>&1 | grep -c "^FAIL\|^--- FAIL\|^panic:")
DEMO=$(ls $SRC/*_test.go 2>/dev/null | head -1)
DEMO_WITH=skip; DEMO_WITHOUT=skip
if [ -n "$DEMO" ]; then
  cp $DEMO engine/zz_seed_demo_test.go
  TAGS=""; grep -q "tags verif" $DEMO && TAGS="-tags verif"
  RACE=""; grep -q "go test -race\|-race " $DEMO && RACE="-race"
  RUN=$(grep -o "func Test[A-Za-z0-9_]*" $DEMO | sed 's/func //' | paste -sd'|')
  go test $TAGS $RACE -vet=off -count=1 -timeout 10m -run "^($RUN)\$" ./engine/ >$OUT/${P}_$M.with.log 2>&1; DEMO_WITH=$?
  git apply -R $OUT/${P}_$M.diff
  go test $TAGS $RACE -vet=off -count=1 -timeout 10m -run "^($RUN)\$" ./engine/ >$OUT/${P}_$M.without.log 2>&1; DEMO_WITHOUT=$?
fi
cd /; git -C /repo worktree remove --force $WT
echo "suite_failures_with_change=$SUITE demo_exit_with=$DEMO_WITH demo_exit_without=$DEMO_WITHOUT" > $OUT/${P}_$M.txt
