"""Per-property configuration of check.py: oracle streams (profile, oracle, quick/thorough case counts),
what counts as distinct / non-trivial, trusted base."""

DIFF_FIELDS = ["eng_vs_model", "eng_vs_prom", "prom_vs_spec", "other", "crash", "wf", "contract"]
COMMON_TB = [
    "Go harness (in-memory storage.Queryable, generators, comparison with relative tolerance 1e-9, +0/-0 identified)",
    "Prometheus v0.40.1 parser, PreprocessExpr and reference engine as libraries",
    "Lean model files Basic/Val/Expr/Kernels/Sem/Run/Eng/Plan/Ops/Iter/Table/Acc/Coalesce/Dist/Hints/Slices/Pool/Remote/Streams (hand-written, tied by correspondence: differential on whole queries, kernel-level on the real iterators, accumulators, join tables, coalesce, remote operator and operator trees, plan shape for the optimizers)",
]
RULE = ("cases from the structured generator profile(s) named in streams (type-directed queries, data laid out around "
        "the evaluation grid with boundary samples, gaps, staleness markers, NaN/Inf); a case is non-trivial when the "
        "reference result has at least one sample or is an error; distinct = distinct (query, window, series count)")


def diff(profile, q, t, **kw):
    d = dict(oracle="diff", profile=profile, n=(q, t), fields=DIFF_FIELDS)
    d.update(kw)
    return d


def orc(oracle, profile, q, t, **kw):
    d = dict(oracle=oracle, profile=profile, n=(q, t), fields=["other", "crash", "eng_vs_model"])
    d.update(kw)
    return d


PROPS = {
    "C01": dict(streams=[diff("mixed", 3000, 60000), diff("late", 200, 4000), diff("extreme", 300, 6000), diff("twins", 500, 8000), diff("subms", 300, 4000), diff("func", 1000, 15000)], rule=RULE, trusted_base=COMMON_TB),
    "C02": dict(streams=[diff("selector", 3000, 40000), orc("procs", "selector", 100, 1500), diff("twins", 600, 8000), orc("kernel", "kernel", 2000, 40000), orc("sequence", "sequence", 150, 2000)], rule=RULE + "; kernel = selectPoint over Prometheus' real MemoizedSeriesIterator vs the Lean iterator model and the declarative selection, on irregular series with gaps and staleness markers", trusted_base=COMMON_TB),
    "C03": dict(streams=[diff("rangefn", 3000, 40000), orc("kernel", "kernel", 2000, 40000)], rule=RULE, trusted_base=COMMON_TB),
    "C04": dict(streams=[diff("agg", 3000, 40000), diff("kagg", 300, 5000), diff("aggparam", 400, 6000), orc("kernel", "kernel", 2000, 40000)], rule=RULE, trusted_base=COMMON_TB),
    "C05": dict(streams=[diff("binary", 3000, 40000), orc("kernel", "kernel", 2000, 40000)], rule=RULE, trusted_base=COMMON_TB),
    "C06": dict(streams=[diff("func", 3000, 40000), diff("late", 300, 5000), diff("twins", 400, 6000), diff("hist", 400, 6000)], rule=RULE, trusted_base=COMMON_TB),
    "C07": dict(streams=[orc("rangeinst", "mixed", 400, 6000), orc("rangeinst", "twins", 400, 6000), orc("rangeinst", "late", 250, 4000), orc("rangeinst", "rangefn", 200, 3000), orc("rangeinst", "func", 300, 4000), orc("kernel", "kpull", 800, 10000)], rule=RULE + "; kpull = trees of the real operators over scripted children, and Options.NumSteps() on windows with sub-millisecond parts, against the batch-level model (Streams.lean)", trusted_base=COMMON_TB),
    "C08": dict(streams=[orc("fallback", "fallback", 0, 0)], rule="exhaustive enumeration: every function of parser.Functions (full and minimal arity), every aggregation and binary/set operator and modifier, subqueries, string literals, range vectors, each in every syntactic position x instant/range x fallback on/off", trusted_base=COMMON_TB, exhaustive=True),
    "C09": dict(streams=[orc("opt", "optx", 1500, 30000), orc("opt", "mixed", 300, 6000), orc("opt", "twins", 300, 4000)], rule=RULE + "; optx = selectors of <=2 matchers over the 2-key x 4-type x 3-value alphabet (incl. repeated keys) in 18 positional templates over a dataset with every label-presence combination", trusted_base=COMMON_TB),
    "C10": dict(streams=[orc("dist", "dist", 600, 12000), orc("dist", "dnest", 150, 3000), orc("dist", "dfunc", 900, 3600), orc("dist", "aggparam", 600, 6000), orc("distplan", "dfunc", 1800, 3600), orc("distplan", "dist", 400, 8000), orc("distplan", "dnest", 150, 3000), orc("distplan", "mixed", 400, 8000), orc("distplan", "func", 200, 4000), orc("kernel", "krem", 1500, 20000, fields=["other", "crash", "eng_vs_model", "model_vs_spec"])], rule=RULE + "; krem = the real remote.NewExecution over a stub query returning a prescribed matrix or vector (which scribbles over its result when closed) against the Lean model of the transport and its specification; random assignment of the series to 1..4 remote engines incl. empty partitions; dnest = the same aggregation nested with groups split across engines; distplan = the real DistributedExecutionOptimizer's plan against the Lean model of its traversal, by plan shape; dfunc = every function of the parser's table with arguments of the declared types in twelve positions", trusted_base=COMMON_TB),
    "C11": dict(streams=[orc("procs", "mixed", 150, 2500), orc("procs", "selector", 100, 1500), orc("procs", "twins", 250, 3000), orc("procs", "agg", 300, 4000), orc("procs", "kagg", 200, 3000), orc("kernel", "kco", 400, 6000)], rule=RULE + "; each case under GOMAXPROCS 1,2,3,4,6,8,12,16, permuted storage order, added unrelated series, yields in storage callbacks", trusted_base=COMMON_TB),
    "C12": dict(streams=[orc("concurrent", "concurrent", 60, 600, workers=4), orc("concurrent", "twins", 30, 300, workers=4)], race=True, rule=RULE + "; up to 32 concurrent executions of 2-6 queries on one engine and one storage under the race detector", trusted_base=COMMON_TB),
    "C13": dict(streams=[orc("panic", "mixed", 40, 500), orc("panic", "extreme", 60, 800), orc("lifecycle", "mixed", 150, 2000), diff("extreme", 400, 6000), diff("aggparam", 400, 6000), orc("kernel", "kpull", 800, 10000)], rule=RULE + "; kpull = trees of the real operators over scripted children against the batch-level model whose index-safety theorem C13 states; a panic (runtime error / string value) injected at storage events, each attempt in a child process", trusted_base=COMMON_TB),
    "C14": dict(streams=[orc("cancel", "mixed", 100, 1500), orc("cancel", "binary", 40, 600)], rule=RULE + "; cancellation of the context, Cancel() from another goroutine and a blocking storage at storage events", trusted_base=COMMON_TB),
    "C15": dict(streams=[orc("faults", "mixed", 200, 3000)], rule=RULE + "; an error injected at error-capable storage events (Querier, Select, SeriesSet.Next/Err, Iterator Seek/Next/Err)", trusted_base=COMMON_TB),
    "C16": dict(streams=[orc("hints", "mixed", 500, 8000), orc("hints", "twins", 400, 6000), orc("hints", "hist", 300, 4000), orc("hints", "func", 300, 4000)], rule=RULE, trusted_base=COMMON_TB),
    "C17": dict(streams=[orc("lifecycle", "mixed", 300, 5000), orc("kernel", "kslice", 500, 8000), orc("lifecycle", "incl", 150, 2500), orc("lifecycle", "binary", 200, 4000), orc("lifecycle", "rangefn", 150, 2000), orc("lifecycle", "func", 200, 3000), orc("lifecycle", "hist", 150, 2000), orc("faults", "mixed", 100, 1500), orc("cancel", "mixed", 40, 600), orc("panic", "mixed", 25, 300)], rule=RULE, trusted_base=COMMON_TB),
    "C18": dict(streams=[diff("mixed", 1500, 30000), diff("extreme", 300, 5000), diff("func", 800, 10000), orc("procs", "mixed", 60, 600), orc("lifecycle", "hist", 150, 2000), diff("hist", 300, 4000), orc("kernel", "kco", 300, 4000), diff("late", 200, 3000), orc("dist", "dist", 200, 3000, fields=["other", "crash", "eng_vs_model", "contract"]), orc("kernel", "kpull", 2000, 30000)], rule=RULE + "; kpull = trees of the real operators over scripted children against the batch-level model (Streams.lean), every batch of every call and the number of batches each child was asked for; the verif-tag wrapper checks the contract at every Series/Next of every operator", trusted_base=COMMON_TB),
    "C19": dict(streams=[diff("mixed", 1500, 30000), diff("extreme", 600, 10000), diff("binary", 600, 10000), diff("func", 1500, 20000), diff("hist", 400, 6000)], rule=RULE, trusted_base=COMMON_TB),
    "C20": dict(streams=[orc("sequence", "sequence", 250, 3000), orc("lifecycle", "hist", 150, 2000)], rule=RULE + "; sequences of 2-6 queries run twice on one engine interleaved with appends, every kept result re-checked after every later operation", trusted_base=COMMON_TB),
}
