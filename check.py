#!/usr/bin/env python3
"""Orchestrates one property check: rebuilds the ties from /repo's working tree, re-checks the
Lean theorems, runs the correspondence / oracle streams, classifies what it saw against the
known-findings file, writes evidence and replays, prints VIOLATION / KNOWN-FINDING lines.

usage: check.py <property id> [--tier quick|thorough] [--replay path]
env:   VERIF_SEED, VERIF_TIER
"""
import argparse
import collections
import hashlib
import json
import os
import re
import subprocess
import sys
import time

VERIF = os.path.dirname(os.path.abspath(__file__))
LEAN = os.path.join(VERIF, "lean")
HARNESS_DIR = os.path.join(VERIF, "harness")
HARNESS = os.path.join(HARNESS_DIR, "harness")
BUILD = os.path.join(VERIF, "build")
GOENV = dict(os.environ, GOFLAGS="-mod=mod", GOPROXY="off", GOSUMDB="off", GOTOOLCHAIN="local",
             CGO_ENABLED=os.environ.get("CGO_ENABLED", "0"))

sys.path.insert(0, VERIF)
from props import PROPS  # noqa: E402


def sh(cmd, cwd=None, env=None, timeout=None, check=True):
    p = subprocess.run(cmd, cwd=cwd, env=env, shell=isinstance(cmd, str), stdout=subprocess.PIPE,
                       stderr=subprocess.STDOUT, text=True, timeout=timeout)
    if check and p.returncode != 0:
        raise RuntimeError("command failed (%d): %s\n%s" % (p.returncode, cmd, p.stdout[-4000:]))
    return p


class Problem(Exception):
    """A proof obligation or a tie that no longer checks."""

    def __init__(self, what, detail):
        super().__init__(what)
        self.what = what
        self.detail = detail


# ------------------------------------------------------------------------------------------------
# build: extractor -> Gen/*.lean -> lake build -> audit; harness from the working tree


def repo_digest():
    h = hashlib.sha256()
    for root, dirs, files in os.walk("/repo"):
        dirs[:] = sorted(d for d in dirs if d != ".git")
        for f in sorted(files):
            if f.endswith(".go") or f in ("go.mod", "go.sum"):
                p = os.path.join(root, f)
                h.update(p.encode())
                with open(p, "rb") as fh:
                    h.update(fh.read())
    return h.hexdigest()[:16]


def build_harness(race=False):
    os.makedirs(BUILD, exist_ok=True)
    sh("cp /repo/go.sum %s/go.sum" % HARNESS_DIR)
    out = HARNESS + ("-race" if race else "")
    env = dict(GOENV)
    cmd = ["go", "build", "-tags", "verif", "-o", out]
    if race:
        env["CGO_ENABLED"] = "1"
        cmd.insert(2, "-race")
    cmd.append(".")
    p = sh(cmd, cwd=HARNESS_DIR, env=env, check=False, timeout=900)
    if p.returncode != 0:
        raise Problem("harness-build", p.stdout[-3000:])
    return out


def regenerate_facts():
    """Run the go/ast extractor over /repo's working tree and rewrite lean/PromqlVerif/Gen/*.lean."""
    ext = os.path.join(VERIF, "extract")
    if not os.path.isdir(ext):
        return
    p = sh(["go", "run", ".", "-repo", "/repo", "-out", os.path.join(LEAN, "PromqlVerif", "Gen")],
           cwd=ext, env=GOENV, check=False, timeout=600)
    if p.returncode != 0:
        raise Problem("fact-extraction", p.stdout[-3000:])


def lake_build(targets):
    p = sh(["lake", "build"] + targets, cwd=LEAN, check=False, timeout=3000)
    if p.returncode != 0:
        errs = [l for l in p.stdout.splitlines() if "error" in l.lower()]
        raise Problem("lean-build", "\n".join(errs[:40]) or p.stdout[-3000:])
    return p.stdout


FORBIDDEN = re.compile(r"\b(sorry|admit|native_decide|bv_decide|implemented_by)\b|^\s*axiom\s|unsafe\s|maxHeartbeats\s+0")


def strip_comments(src):
    src = re.sub(r"/-.*?-/", "", src, flags=re.S)
    return "\n".join(l.split("--")[0] for l in src.splitlines())


def audit(prop):
    """Theorems of Properties/<prop>.lean, their axioms (via #print axioms), forbidden tokens."""
    pfile = os.path.join(LEAN, "PromqlVerif", "Properties", prop + ".lean")
    if not os.path.exists(pfile):
        raise Problem("no-theorems", "no property theorem file for " + prop)
    bad = []
    for root, _, files in os.walk(os.path.join(LEAN, "PromqlVerif")):
        for f in files:
            if f.endswith(".lean"):
                src = strip_comments(open(os.path.join(root, f)).read())
                for i, l in enumerate(src.splitlines()):
                    if FORBIDDEN.search(l):
                        bad.append("%s:%d: %s" % (f, i + 1, l.strip()))
    if bad:
        raise Problem("forbidden-token", "\n".join(bad[:20]))
    src = strip_comments(open(pfile).read())
    ns = re.search(r"^namespace\s+(\S+)", src, flags=re.M)
    prefix = (ns.group(1) + ".") if ns else ""
    names = re.findall(r"^\s*theorem\s+(\S+)", src, flags=re.M)
    if not names:
        raise Problem("no-theorems", "no theorems in " + pfile)
    aud = os.path.join(BUILD, "Audit_%s.lean" % prop)
    with open(aud, "w") as fh:
        fh.write("import PromqlVerif.Properties.%s\n" % prop)
        for n in names:
            fh.write("#print axioms %s%s\n" % (prefix, n))
    p = sh(["lake", "env", "lean", aud], cwd=LEAN, check=False, timeout=900)
    if p.returncode != 0:
        raise Problem("audit", p.stdout[-3000:])
    allowed = {"propext", "Classical.choice", "Quot.sound"}
    res = {}
    cur = None
    # long names make Lean wrap the axiom list over several lines: match across line breaks
    text = p.stdout
    for m in re.finditer(r"'([^']+)' depends on axioms: \[([^\]]*)\]", text):
        res[m.group(1)] = [a.strip() for a in m.group(2).replace("\n", " ").split(",") if a.strip()]
    for m2 in re.finditer(r"'([^']+)' does not depend on any axioms", text):
        res[m2.group(1)] = []
    missing = [n for n in names if (prefix + n) not in res]
    if missing:
        raise Problem("audit", "no axiom report for: %s\n%s" % (missing, p.stdout[-2000:]))
    for n, axs in res.items():
        extra = [a for a in axs if a not in allowed]
        if extra:
            raise Problem("axioms", "%s depends on %s" % (n, extra))
    return res


# ------------------------------------------------------------------------------------------------
# known findings


def load_findings():
    path = os.path.join(VERIF, "known_findings.jsonl")
    out = []
    if os.path.exists(path):
        for l in open(path):
            l = l.strip()
            if l and not l.startswith("#"):
                out.append(json.loads(l))
    return out


def finding_matches(f, prop, v):
    """Does the open finding f explain the bad verdict v of property prop?"""
    if f.get("status") != "open" or prop not in f["properties"]:
        return False
    r = f["rule"]
    feats = set(v.get("features") or [])
    if r.get("oracle") and r["oracle"] != v.get("oracle"):
        return False
    if any(x not in feats for x in r.get("features_all", [])):
        return False
    if r.get("features_any") and not any(x in feats for x in r["features_any"]):
        return False
    # the faithful model must reproduce the engine's behaviour on this case
    if r.get("model_reproduces", True) and v.get("eng_vs_model"):
        return False
    for fld in ("prom_vs_spec", "crash", "other"):
        if v.get(fld) and fld not in r.get("fields", []):
            return False
    for fld in ("eng_vs_prom", "wf", "other", "crash"):
        val = v.get(fld)
        if val and fld not in r.get("fields", ["eng_vs_prom", "wf"]):
            return False
    pat = r.get("detail_regex")
    if pat:
        blob = " ".join(str(v.get(k) or "") for k in ("eng_vs_prom", "wf", "other", "crash"))
        if not re.search(pat, blob):
            return False
    return True


# ------------------------------------------------------------------------------------------------


def run_stream(prop, spec, tier, seed, harness):
    """One oracle stream: generate cases, run them, return (cases by id, verdicts)."""
    n = spec["n"][0 if tier == "quick" else 1]
    tag = "%s_%s_%s" % (prop, spec["oracle"], spec["profile"])
    cases = os.path.join(BUILD, tag + ".cases.jsonl")
    verdicts = os.path.join(BUILD, tag + ".verdicts.jsonl")
    for p in (cases, verdicts):
        if os.path.exists(p):
            os.remove(p)
    corpus = os.path.join(VERIF, "corpus", spec.get("corpus", spec["profile"]) + ".jsonl")
    sh([harness, "gen", "-profile", spec["profile"], "-n", str(n), "-seed", str(seed), "-out", cases], env=GOENV)
    if os.path.exists(corpus):
        with open(cases, "a") as out:
            out.write(open(corpus).read())
    workers = str(spec.get("workers", 16))
    p = sh([harness, "run", "-oracle", spec["oracle"], "-in", cases, "-out", verdicts, "-workers", workers],
           env=GOENV, check=False, timeout=spec.get("timeout", 3000))
    if p.returncode != 0:
        raise Problem("oracle-run", p.stdout[-3000:])
    cs = {}
    for l in open(cases):
        c = json.loads(l)
        cs[c["id"]] = c
    vs = [json.loads(l) for l in open(verdicts)]
    return cs, vs


def is_bad(v, fields):
    return any(v.get(f) for f in fields)


def main():
    ap = argparse.ArgumentParser()
    ap.add_argument("prop")
    ap.add_argument("--tier", default=os.environ.get("VERIF_TIER", "quick"))
    ap.add_argument("--replay")
    args = ap.parse_args()
    prop = args.prop
    tier = args.tier if args.tier in ("quick", "thorough") else "quick"
    seed = int(os.environ.get("VERIF_SEED", "1"))
    cfg = PROPS[prop]
    t0 = time.time()
    os.makedirs(BUILD, exist_ok=True)
    os.makedirs(os.path.join(VERIF, "evidence"), exist_ok=True)
    os.makedirs(os.path.join(VERIF, "replays"), exist_ok=True)

    violations = []  # (replay path, suffix)
    known_lines = []
    problems = []
    theorems = {}
    stats = collections.Counter()
    samples = []
    feature_hist = collections.Counter()
    nontrivial = set()
    evaluations = 0
    validated = 0
    findings = load_findings()
    hit_findings = collections.Counter()

    def write_replay(name, payload):
        path = os.path.join(VERIF, "replays", "%s-%s.json" % (prop, name))
        with open(path, "w") as fh:
            json.dump(payload, fh, indent=1)
        return path

    # 1. proof obligations, re-checked against the regenerated facts
    try:
        regenerate_facts()
        lake_build(["PromqlVerif", "driver", "PromqlVerif.Properties." + prop])
        theorems = audit(prop)
        if tier == "thorough":
            p = sh(["lake", "env", "leanchecker", "PromqlVerif.Properties." + prop], cwd=LEAN, check=False, timeout=3000)
            if p.returncode != 0:
                raise Problem("leanchecker", p.stdout[-2000:])
    except Problem as e:
        problems.append(e)

    # 2. the ties and the property oracles on the real code
    harness = None
    try:
        harness = build_harness(race=cfg.get("race", False))
    except Problem as e:
        problems.append(e)

    bad_cases = []
    if harness:
        if args.replay:
            streams = []
            rp = json.load(open(args.replay))
            if "case" in rp:
                tmp = os.path.join(BUILD, "replay.cases.jsonl")
                with open(tmp, "w") as fh:
                    fh.write(json.dumps(rp["case"]) + "\n")
                out = os.path.join(BUILD, "replay.verdicts.jsonl")
                sh([harness, "run", "-oracle", rp.get("oracle", "diff"), "-in", tmp, "-out", out, "-workers", "1"], env=GOENV)
                for l in open(out):
                    print(l.strip())
            return 0
        for spec in cfg["streams"]:
            if tier == "quick" and spec.get("thorough_only"):
                continue
            try:
                cs, vs = run_stream(prop, spec, tier, seed, harness)
            except Problem as e:
                problems.append(e)
                continue
            fields = spec.get("fields", ["eng_vs_model", "eng_vs_prom", "prom_vs_spec", "other", "crash", "wf"])
            for v in vs:
                if v.get("skipped"):
                    stats["skipped:" + v["skipped"].split(":")[0]] += 1
                    continue
                evaluations += 1
                if v.get("tie"):
                    stats["tie"] += 1
                for f in v.get("features") or []:
                    feature_hist[f] += 1
                stats["steps>10" if v.get("steps", 0) > 10 else "steps<=10"] += 1
                if v.get("nontrivial"):
                    c = cs.get(v["id"], {})
                    nontrivial.add((v["query"], c.get("start"), c.get("end"), c.get("step"), v.get("nseries")))
                if "eng_vs_model" in fields and not v.get("eng_vs_model") and not v.get("tie"):
                    validated += 1
                if len(samples) < 5 and v.get("nontrivial"):
                    samples.append({"id": v["id"], "query": v["query"], "steps": v.get("steps"), "series": v.get("nseries"),
                                    "oracle": v.get("oracle")})
                if not is_bad(v, fields):
                    continue
                fs = [f for f in findings if finding_matches(f, prop, v)]
                if fs:
                    hit_findings[fs[0]["id"]] += 1
                    continue
                bad_cases.append((spec, v, cs.get(v["id"])))

    # 3. replay the witnesses of the known findings on the real code
    if harness:
        for f in findings:
            if prop not in f["properties"] or f.get("status") != "open" or "witness" not in f:
                continue
            tmp = os.path.join(BUILD, "witness.cases.jsonl")
            with open(tmp, "w") as fh:
                fh.write(json.dumps(f["witness"]) + "\n")
            out = os.path.join(BUILD, "witness.verdicts.jsonl")
            try:
                sh([harness, "run", "-oracle", f["rule"].get("oracle", "diff"), "-in", tmp, "-out", out, "-workers", "1"], env=GOENV, timeout=600)
                wv = [json.loads(l) for l in open(out)]
            except Exception as e:  # noqa: BLE001
                problems.append(Problem("witness-run", str(e)))
                continue
            if wv and finding_matches(f, prop, wv[0]) and is_bad(wv[0], ["eng_vs_prom", "wf", "other", "crash"]):
                known_lines.append("KNOWN-FINDING: property=%s %s %s" % (prop, f["id"], f["what"]))
            elif wv and is_bad(wv[0], ["eng_vs_model", "eng_vs_prom", "prom_vs_spec", "wf", "other", "crash"]):
                bad_cases.append(({"oracle": f["rule"].get("oracle", "diff")}, wv[0], f["witness"]))
            else:
                print("STALE-FINDING: property=%s %s no longer reproduces" % (prop, f["id"]))

    # 4. verdict
    seen = set()
    for spec, v, case in bad_cases:
        key = (v.get("query"), v.get("eng_vs_prom") or v.get("other") or v.get("crash") or str(v.get("wf")))
        if key in seen:
            continue
        seen.add(key)
        if len(violations) >= 10:
            break
        name = hashlib.sha1((v["id"] + json.dumps(v, sort_keys=True)).encode()).hexdigest()[:10]
        real = v.get("eng_vs_prom") or v.get("crash") or v.get("wf") or v.get("other")
        path = write_replay(name, {"property": prop, "oracle": spec["oracle"], "case": case, "verdict": v,
                                   "rerun": "./check.py %s --replay <this file>" % prop})
        violations.append((path, "" if real else "no-failing-input-found"))
    for e in problems:
        name = hashlib.sha1((e.what + e.detail).encode()).hexdigest()[:10]
        path = write_replay("obligation-" + name, {"property": prop, "no_longer_checks": e.what, "detail": e.detail})
        # a concrete failing input found by the streams takes precedence
        if not any(s == "" for _, s in violations):
            violations.append((path, "no-failing-input-found"))

    wall = time.time() - t0
    obligations = len(theorems) if theorems else max(1, len(cfg.get("expected_theorems", [])) or 1)
    discharged = len(theorems)
    evidence = {
        "property_id": prop,
        "tier": tier,
        "seed": seed,
        "level": "proof",
        "coverage": {
            "obligations": obligations,
            "discharged": discharged,
            "checker_cmd": "cd lean && lake build PromqlVerif.Properties.%s && lake env lean build/Audit_%s.lean  (#print axioms)" % (prop, prop),
            "trusted_base": cfg.get("trusted_base", []) + [
                "Lean 4 kernel; axioms of the property theorems: " + ", ".join(sorted({a for axs in theorems.values() for a in axs}) or ["none"]),
                "hand-written Lean model tied to /repo by differential correspondence (harness) and regenerated facts",
            ],
            "theorems": sorted(theorems.keys()),
            "evaluations": evaluations,
            "distinct_nontrivial": len(nontrivial),
            "rule": cfg.get("rule", ""),
            "samples": samples or [{"note": "no oracle stream ran"}],
            "traces_validated_against_impl": validated,
            "input_distribution": {"features": dict(feature_hist.most_common(60)), "stats": dict(stats)},
            "known_findings_hit": dict(hit_findings),
            "repo_digest": repo_digest(),
        },
        "assumptions": cfg.get("assumptions", []),
        "wall_s": round(wall, 1),
        "violations": len(violations),
    }
    with open(os.path.join(VERIF, "evidence", prop + ".json"), "w") as fh:
        json.dump(evidence, fh, indent=1)

    for l in known_lines:
        print(l)
    for path, suffix in violations:
        print(("VIOLATION property=%s replay=%s %s" % (prop, path, suffix)).rstrip())
    print("%s: %d evaluations, %d theorems, %d known-finding hits, %d violations, %.0fs" %
          (prop, evaluations, len(theorems), sum(hit_findings.values()), len(violations), wall))
    return 1 if violations else 0


if __name__ == "__main__":
    sys.exit(main())
