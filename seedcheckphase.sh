#!/bin/bash
# usage: SEEDROOT=/tmp/seedN/out SEEDTAG=rN seedcheckphase.sh <Cxx> <mutK>
# Check phase (serial: it uses /repo): applies the diff confirmed by seedconfirm.sh to /repo, runs
# the property's quick check, undoes the change, and keeps the seed under seeded/<P>-<tag><M>/.
P=$1; M=$2; TAG=${SEEDTAG:-}
SRC=${SEEDROOT:-/tmp/seed/out}/$P/$M
CONF=$(dirname ${SEEDROOT:-/tmp/seed/out})/confirm
R=$(cat $CONF/${P}_$M.txt)
echo "$R"
SUITE=$(echo "$R" | sed -n 's/.*suite_failures_with_change=\([0-9]*\).*/\1/p'); DEMO_WITH=$(echo "$R" | sed -n 's/.*demo_exit_with=\([a-z0-9]*\).*/\1/p'); DEMO_WITHOUT=$(echo "$R" | sed -n 's/.*demo_exit_without=\([a-z0-9]*\).*/\1/p')
if [ "$SUITE" != "0" ] || [ "$DEMO_WITH" = "0" ] || [ "$DEMO_WITHOUT" != "0" ]; then echo "NOT-CONFIRMED $P $M"; exit 0; fi
cd /repo && git apply $CONF/${P}_$M.diff || { echo "cannot apply to /repo"; exit 4; }
cd /verif && timeout 1500 python3 check.py $P > /tmp/seedcheck_${P}_$M.log 2>&1; RC=$?
cd /repo && git checkout -q -- . && git clean -fdq -- . && git status --short | head -3
NV=$(grep -c '^VIOLATION' /tmp/seedcheck_${P}_$M.log)
echo "check_exit=$RC $NV violation lines"; grep '^VIOLATION' /tmp/seedcheck_${P}_$M.log | head -2
D=/verif/seeded/${P}-${TAG}${M}; mkdir -p $D
cp $CONF/${P}_$M.diff $D/patch.diff
DEMO=$(ls $SRC/*_test.go 2>/dev/null | head -1); [ -n "$DEMO" ] && cp $DEMO $D/demo_test.go
NOINPUT=$(grep -c 'no-failing-input-found' /tmp/seedcheck_${P}_$M.log)
python3 - "$SRC/meta.json" "$D/meta.json" "$P" "$M" "$RC" "$NV" "$NOINPUT" "$(git -C /repo rev-parse --short HEAD)" <<'PY'
import json,sys
src,dst,P,M,rc,nv,noinput,head=sys.argv[1:9]
try: m=json.load(open(src))
except Exception: m={}
m["property"]=P
m["confirmed_by_builder"]={
  "base_commit": head,
  "scratch_worktree": "git worktree add --detach /tmp/seedverify_%s_%s HEAD; git apply patch.diff"%(P,M),
  "suite": "go test -vet=off -count=1 -timeout 25m ./...  -> 0 failures with the change",
  "demo": "copied to engine/zz_seed_demo_test.go; go test -run <its tests> ./engine/ -> fails with the change, passes without it",
  "check": "git -C /repo apply patch.diff; python3 /verif/check.py %s --tier quick; git -C /repo checkout -- ."%P,
  "check_exit": int(rc), "violation_lines": int(nv), "no_failing_input_found_lines": int(noinput),
  "detected": int(rc)==1 and int(nv)>0,
}
json.dump(m,open(dst,"w"),indent=1)
PY
rm -f /tmp/seedcheck_${P}_$M.log
